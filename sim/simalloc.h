// S1/S2: the simulated heap. Replacement operator new/delete (S1) and, when the engine links with
// -Wl,--wrap=malloc,... , a policy layer over the C allocator used by GSL (S2).
// Compiled without sanitizers (its state is touched by every simulated thread under the baton).
#ifndef VERIF_SIMALLOC_H
#define VERIF_SIMALLOC_H
#include <stdint.h>
#include <stddef.h>

namespace verif{

enum { REUSE_NONE=0, REUSE_LIFO=1, REUSE_FIFO=2, REUSE_RANDOM=3 };
enum { RESIDUE_0=0, RESIDUE_16=1, RESIDUE_RANDOM=2 };
enum { FILL_NANPAYLOAD=0, FILL_ZERO=1, FILL_A5=2 };

static const uint64_t NAN_PAYLOAD=0x7ff4deadbeefcafeULL;   // fresh memory
static const uint64_t FREED_PATTERN=0xddddddddddddddddULL; // freed memory

struct AllocCfg{
  int reuse, residue, fill;
  int c_reuse;        // policy for the wrapped C allocator (S2); REUSE_NONE = pass through to the real one
  uint64_t seed;
  int passthrough;    // 1: keep the yield points, counters and fault injection but serve memory from the real allocator (ThreadSanitizer builds:
                      // its own malloc/free interceptors reset the race-detection state of recycled memory, which an arena cannot do)
};

enum AllocErrKind{ AERR_NONE=0, AERR_DOUBLE_FREE=1, AERR_FOREIGN_FREE=2, AERR_USER_BUFFER_FREED=3, AERR_GUARD=4, AERR_WRITE_AFTER_FREE=5, AERR_MISMATCHED=6 };
struct AllocError{ int kind; long block_id; int tag; int tag_free; size_t size; };

struct BlockInfo{ long id; size_t size; int tag; int thread; int is_user; int is_array; int live; };

void alloc_run_begin(const AllocCfg& cfg);     // start of a run: empty free lists, counters zero
// end of a run: returns number of library blocks still live; everything is released afterwards
int  alloc_run_end();
int  alloc_live_lib_blocks(BlockInfo* out,int max);   // live library-scope blocks (leak candidates)
int  alloc_errors(AllocError* out,int max);           // errors recorded since run begin
void alloc_check_guards();                            // verify guard zones of every live block / user buffer (non-ASan builds)

void alloc_scope(int lib);            // thread-local: 1 while a library operation is in flight, 0 for harness code
int  alloc_in_scope();
void alloc_tag(int tag);              // thread-local: operation index recorded in blocks allocated from now on
long alloc_count();                   // library-scope C++ allocations on this thread since alloc_count_reset()
void alloc_count_reset();
void alloc_fail_at(long k);           // the k-th (1-based) library-scope C++ allocation on this thread from now throws std::bad_alloc; 0 = off
int  alloc_fault_fired();             // 1 if the armed fault fired (resets on alloc_fail_at)

double* user_buffer_alloc(size_t ndoubles,int buf_id);  // guarded, tracked as a user buffer
void    user_buffer_free(double* p);

// classification of an address range for the model
enum { RANGE_NONE=0, RANGE_LIB_BLOCK=1, RANGE_USER_BUFFER=2, RANGE_FREED=3 };
int  alloc_classify(const void* p,size_t bytes,long* block_id,int* user_buf_id,size_t* offset);

// statistics of the run
struct AllocStats{ long cxx_allocs,cxx_frees,c_allocs,c_frees,reused,c_reused,faults_fired,residue16; };
AllocStats alloc_stats();

}
#endif
