// Dense reference: complex d x d matrices and an independently constructed generalised Gell-Mann basis in the
// documented component layout (DESIGN.md appendix D). Never calls the library's conversion kernels.
#ifndef VERIF_DENSE_H
#define VERIF_DENSE_H
#include <complex>
#include <vector>
#include <cmath>
#include <cstring>

namespace verif{

typedef std::complex<double> cplx;

struct Mat{
  unsigned d; cplx m[6][6];
  explicit Mat(unsigned d_=0):d(d_){ for(int i=0;i<6;i++) for(int j=0;j<6;j++) m[i][j]=0; }
  static Mat identity(unsigned d){ Mat r(d); for(unsigned i=0;i<d;i++) r.m[i][i]=1; return r; }
  Mat operator*(const Mat& o) const{ Mat r(d); for(unsigned i=0;i<d;i++) for(unsigned j=0;j<d;j++){ cplx s=0; for(unsigned k=0;k<d;k++) s+=m[i][k]*o.m[k][j]; r.m[i][j]=s; } return r; }
  Mat operator+(const Mat& o) const{ Mat r(d); for(unsigned i=0;i<d;i++) for(unsigned j=0;j<d;j++) r.m[i][j]=m[i][j]+o.m[i][j]; return r; }
  Mat operator-(const Mat& o) const{ Mat r(d); for(unsigned i=0;i<d;i++) for(unsigned j=0;j<d;j++) r.m[i][j]=m[i][j]-o.m[i][j]; return r; }
  Mat scaled(cplx s) const{ Mat r(d); for(unsigned i=0;i<d;i++) for(unsigned j=0;j<d;j++) r.m[i][j]=m[i][j]*s; return r; }
  Mat dagger() const{ Mat r(d); for(unsigned i=0;i<d;i++) for(unsigned j=0;j<d;j++) r.m[i][j]=std::conj(m[j][i]); return r; }
  cplx trace() const{ cplx s=0; for(unsigned i=0;i<d;i++) s+=m[i][i]; return s; }
  double maxabs() const{ double r=0; for(unsigned i=0;i<d;i++) for(unsigned j=0;j<d;j++){ double a=std::abs(m[i][j]); if(a>r) r=a; } return r; }
};

// generator number idx (0 = identity) of dimension d, layout index = d*i+j
inline Mat generator(unsigned d,unsigned idx){
  Mat g(d);
  if(idx==0) return Mat::identity(d);
  unsigned i=idx/d,j=idx%d;
  if(j>i){ g.m[i][j]=1; g.m[j][i]=1; }
  else if(j<i){ g.m[j][i]=cplx(0,-1); g.m[i][j]=cplx(0,1); }
  else{ unsigned k=i; double n=std::sqrt(2.0/(double)(k*(k+1))); for(unsigned q=0;q<k;q++) g.m[q][q]=n; g.m[k][k]=-(double)k*n; }
  return g;
}
// M = c0*1 + sum_k c_k lambda_k
inline Mat from_components(unsigned d,const double* c){
  Mat r(d);
  for(unsigned idx=0;idx<d*d;idx++){
    if(c[idx]==0) continue;
    unsigned i=idx/d,j=idx%d;
    if(idx==0){ for(unsigned q=0;q<d;q++) r.m[q][q]+=c[0]; }
    else if(j>i){ r.m[i][j]+=c[idx]; r.m[j][i]+=c[idx]; }
    else if(j<i){ r.m[j][i]+=cplx(0,-c[idx]); r.m[i][j]+=cplx(0,c[idx]); }
    else{ unsigned k=i; double n=std::sqrt(2.0/(double)(k*(k+1))); for(unsigned q=0;q<k;q++) r.m[q][q]+=n*c[idx]; r.m[k][k]-=(double)k*n*c[idx]; }
  }
  return r;
}
// c0 = Tr M / d, c_k = Tr(M lambda_k)/2   (M Hermitian)
inline std::vector<double> to_components(const Mat& M){
  unsigned d=M.d; std::vector<double> c(d*d,0.0);
  c[0]=M.trace().real()/(double)d;
  for(unsigned idx=1;idx<d*d;idx++){
    unsigned i=idx/d,j=idx%d;
    if(j>i) c[idx]=0.5*(M.m[i][j]+M.m[j][i]).real();
    else if(j<i){ // Tr(M lambda)/2 with lambda[j][i]=-i, lambda[i][j]=+i : (M[i][j]*(-i) + M[j][i]*(i))/2
      cplx t=M.m[i][j]*cplx(0,-1)+M.m[j][i]*cplx(0,1); c[idx]=0.5*t.real(); }
    else{ unsigned k=i; double n=std::sqrt(2.0/(double)(k*(k+1))); double s=0; for(unsigned q=0;q<k;q++) s+=M.m[q][q].real(); s-=(double)k*M.m[k][k].real(); c[idx]=0.5*n*s; }
  }
  return c;
}
// seeded unitary: product of complex plane rotations
inline Mat plane_rotation(unsigned d,unsigned i,unsigned j,double th,double del){
  Mat r=Mat::identity(d);
  r.m[i][i]=std::cos(th); r.m[j][j]=std::cos(th);
  r.m[i][j]=std::sin(th)*std::exp(cplx(0,-del)); r.m[j][i]=-std::sin(th)*std::exp(cplx(0,del));
  return r;
}

}
#endif
