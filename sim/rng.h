// Seeded PRNG: every random decision of a run derives from one integer.
#ifndef VERIF_RNG_H
#define VERIF_RNG_H
#include <cstdint>
#include <cstddef>
#include <vector>

namespace verif{

inline uint64_t splitmix64(uint64_t& s){
  uint64_t z=(s+=0x9e3779b97f4a7c15ULL);
  z=(z^(z>>30))*0xbf58476d1ce4e5b9ULL;
  z=(z^(z>>27))*0x94d049bb133111ebULL;
  return z^(z>>31);
}
inline uint64_t mix(uint64_t a, uint64_t b){
  uint64_t s=a*0x9e3779b97f4a7c15ULL+b+0x7f4a7c159e3779b9ULL;
  uint64_t r=splitmix64(s);
  s^=b*0xd6e8feb86659fd93ULL;
  return r^splitmix64(s);
}

// xoshiro256**
struct Rng{
  uint64_t s[4];
  explicit Rng(uint64_t seed=1){ reseed(seed); }
  void reseed(uint64_t seed){ uint64_t x=seed; for(int i=0;i<4;i++) s[i]=splitmix64(x); }
  static uint64_t rotl(uint64_t x,int k){ return (x<<k)|(x>>(64-k)); }
  uint64_t next(){
    uint64_t r=rotl(s[1]*5,7)*9, t=s[1]<<17;
    s[2]^=s[0]; s[3]^=s[1]; s[1]^=s[2]; s[0]^=s[3]; s[2]^=t; s[3]=rotl(s[3],45);
    return r;
  }
  // uniform in [0,n), n>0
  uint64_t below(uint64_t n){ return n<=1?0:next()%n; }
  int range(int lo,int hi){ return lo+(int)below((uint64_t)(hi-lo+1)); } // inclusive
  double unit(){ return (next()>>11)*(1.0/9007199254740992.0); }
  bool chance(double p){ return unit()<p; }
  double uniform(double a,double b){ return a+(b-a)*unit(); }
  template<class T> const T& pick(const std::vector<T>& v){ return v[below(v.size())]; }
  // pick an index according to integer weights
  size_t weighted(const std::vector<int>& w){
    long tot=0; for(int x:w) tot+=x;
    long r=(long)below((uint64_t)tot);
    for(size_t i=0;i<w.size();i++){ if(r<w[i]) return i; r-=w[i]; }
    return w.size()-1;
  }
};

// the seed of run i of a batch started with VERIF_SEED
inline uint64_t run_seed(uint64_t verif_seed, uint64_t index){ return mix(verif_seed,index); }
// independent streams of one run
enum Stream{ STREAM_PLAN=1, STREAM_SCHED=2, STREAM_ALLOC=3, STREAM_STEPPER=4, STREAM_BITS=5, STREAM_VALUES=6 };
inline uint64_t stream_seed(uint64_t run_seed_, int stream){ return mix(run_seed_,0x1000+stream); }

}
#endif
