// Common command line of every engine binary (protocol with bin/check).
//   run  --prop P --seed S --from A --to B --stride K --offset O --tier T [--careful]
//   plan --file F [--verbose]
//   gen  --prop P --seed S --index I --tier T
#ifndef VERIF_ENGINE_MAIN_H
#define VERIF_ENGINE_MAIN_H
#include "json.h"
#include "rng.h"
#include "trace.h"
#include <set>
#include <map>
#include <string>
#include <cstdio>
#include <cstdlib>
#include <ctime>
#include <unistd.h>
#include <sys/time.h>

namespace verif{

struct Engine{
  virtual ~Engine(){}
  virtual const char* name() const=0;
  // a plan is a pure function of (verif_seed,index,prop,tier)
  virtual Json generate(uint64_t verif_seed,uint64_t index,const std::string& prop,const std::string& tier)=0;
  // executing a plan consumes the plan only, never a PRNG that is not seeded from the plan
  virtual Outcome execute(const Json& plan,bool verbose,Counters& ctr,std::string* trace_text)=0;
  // called once per process before the first run
  virtual void init(){}
};

inline std::string arg_of(int argc,char** argv,const char* key,const char* def){
  for(int i=2;i+1<argc;i++) if(std::string(argv[i])==key) return argv[i+1];
  return def;
}
inline bool flag_of(int argc,char** argv,const char* key){
  for(int i=2;i<argc;i++) if(std::string(argv[i])==key) return true;
  return false;
}

// watchdog: a run that burns more than cpu_s seconds of CPU (all threads) or does not finish within wall_s seconds is killed by a signal
// (SIGPROF / SIGALRM) and reported by the driver as a hang. CPU time is used so that a loaded machine does not turn a slow run into an alarm.
inline void watchdog(long cpu_s,long wall_s){
  struct itimerval it; it.it_interval.tv_sec=0; it.it_interval.tv_usec=0; it.it_value.tv_sec=cpu_s; it.it_value.tv_usec=0;
  setitimer(ITIMER_PROF,&it,0);
  alarm((unsigned)wall_s);
}

inline int engine_main(int argc,char** argv,Engine& eng){
  setvbuf(stdout,NULL,_IOFBF,1<<16);
  if(argc<2){ fprintf(stderr,"usage: %s run|plan|gen ...\n",argv[0]); return 64; }
  std::string mode=argv[1];
  eng.init();
  if(mode=="gen"){
    uint64_t seed=strtoull(arg_of(argc,argv,"--seed","1").c_str(),0,10);
    uint64_t index=strtoull(arg_of(argc,argv,"--index","0").c_str(),0,10);
    Json plan=eng.generate(seed,index,arg_of(argc,argv,"--prop",""),arg_of(argc,argv,"--tier","quick"));
    printf("%s\n",plan.dump().c_str());
    return 0;
  }
  if(mode=="plan"){
    Json plan=Json::parse(read_file(arg_of(argc,argv,"--file","")));
    bool verbose=flag_of(argc,argv,"--verbose");
    Counters ctr; std::string text;
    int repeat=atoi(arg_of(argc,argv,"--repeat","1").c_str());
    Outcome out;
    // watchdog: a run that does not finish is killed by SIGALRM and reported by the driver as a hang
    for(int r=0;r<repeat;r++){ watchdog(120,900); out=eng.execute(plan,verbose,ctr,&text); watchdog(0,0); }
    if(verbose) fputs(text.c_str(),stdout);
    if(out.ok) printf("E %s ok\n",hex64(out.event_hash).c_str());
    else{
      Json j=Json::object(); j["cls"]=out.cls; j["sig"]=out.sig; j["detail"]=out.detail; j["prop"]=out.prop;
      printf("E %s FAIL %s\n",hex64(out.event_hash).c_str(),j.dump().c_str());
    }
    fflush(stdout);
    return 0;
  }
  if(mode=="run"){
    std::string prop=arg_of(argc,argv,"--prop","");
    std::string tier=arg_of(argc,argv,"--tier","quick");
    uint64_t seed=strtoull(arg_of(argc,argv,"--seed","1").c_str(),0,10);
    uint64_t from=strtoull(arg_of(argc,argv,"--from","0").c_str(),0,10);
    uint64_t to=strtoull(arg_of(argc,argv,"--to","0").c_str(),0,10);
    uint64_t stride=strtoull(arg_of(argc,argv,"--stride","1").c_str(),0,10);
    uint64_t offset=strtoull(arg_of(argc,argv,"--offset","0").c_str(),0,10);
    double deadline=atof(arg_of(argc,argv,"--deadline","0").c_str());
    bool careful=flag_of(argc,argv,"--careful");
    bool hashes=flag_of(argc,argv,"--hashes");
    int maxfail=atoi(arg_of(argc,argv,"--maxfail","20").c_str());
    Counters ctr; std::set<uint64_t> shapes; long runs=0,nontrivial=0,fails=0,steps=0,evals=0; double simtime=0;
    Json samples=Json::array();
    time_t t0=time(NULL); uint64_t last=from;
    for(uint64_t i=from;i<to;i++){
      if(i%stride!=offset) continue;
      if(deadline>0 && (runs&63)==0 && difftime(time(NULL),t0)>deadline) break;
      Json plan=eng.generate(seed,i,prop,tier);
      if(careful){ printf("B %llu\n",(unsigned long long)i); fflush(stdout); }
      watchdog(60,600);
      Outcome out=eng.execute(plan,false,ctr,NULL);
      watchdog(0,0);
      if(hashes) printf("H %llu %s\n",(unsigned long long)i,hex64(out.event_hash).c_str());
      runs++; evals+=out.evals; steps+=out.sim_steps; simtime+=out.sim_time; last=i+1;
      if(out.nontrivial){ nontrivial++; shapes.insert(out.shape); }
      if(samples.size()<3 && (out.nontrivial||runs>50)) samples.push(plan);
      if(!out.ok){
        fails++;
        Json j=Json::object(); j["index"]=(long long)i; j["cls"]=out.cls; j["sig"]=out.sig; j["detail"]=out.detail; j["prop"]=out.prop;
        j["hash"]=hex64(out.event_hash);
        for(size_t k=0;k<out.plan_patch.o.size();k++) plan[out.plan_patch.o[k].first]=out.plan_patch.o[k].second;
        j["plan"]=plan;
        printf("F %s\n",j.dump().c_str()); fflush(stdout);
        if(fails>=maxfail) break;
      }
      if((runs&255)==0){ printf("C %llu\n",(unsigned long long)(i+1)); fflush(stdout); }
    }
    Json st=Json::object();
    st["runs"]=(long long)runs; st["evals"]=(long long)evals; st["nontrivial"]=(long long)nontrivial; st["fails"]=(long long)fails;
    st["sim_steps"]=(long long)steps; st["sim_time"]=simtime; st["next"]=(long long)last;
    Json sh=Json::array(); for(std::set<uint64_t>::iterator it=shapes.begin();it!=shapes.end();++it) sh.push(hex64(*it));
    st["shapes"]=sh;
    Json c=Json::object(); for(std::map<std::string,long>::iterator it=ctr.c.begin();it!=ctr.c.end();++it) c[it->first]=(long long)it->second;
    st["counters"]=c; st["samples"]=samples;
    printf("S %s\n",st.dump().c_str()); fflush(stdout);
    return 0;
  }
  fprintf(stderr,"unknown mode %s\n",mode.c_str());
  return 64;
}

}
#endif
