// Compiled without sanitizers; C-style containers only (see simalloc.h).
#include "simalloc.h"
#include "sched.h"
#include <new>
#include <stdlib.h>
#include <string.h>
#include <stdio.h>
#include <sys/mman.h>

extern "C"{
void __asan_poison_memory_region(void const volatile*,size_t) __attribute__((weak));
void __asan_unpoison_memory_region(void const volatile*,size_t) __attribute__((weak));
void AnnotateNewMemory(const char*,int,const volatile void*,size_t) __attribute__((weak));
void* __real_malloc(size_t) __attribute__((weak));
void* __real_calloc(size_t,size_t) __attribute__((weak));
void* __real_realloc(void*,size_t) __attribute__((weak));
void  __real_free(void*) __attribute__((weak));
}

namespace verif{

namespace{

const size_t ARENA_BYTES=(size_t)128<<20;
const size_t GUARD=32;
enum { KIND_CXX=0, KIND_CXX_ARRAY=1, KIND_C=2, KIND_USER=3 };
enum { SITE_ALLOC=20, SITE_FREE=21, SITE_CALLOC=22, SITE_CFREE=23 };

struct Block{
  char* user; size_t size; size_t cap;   // cap = rounded size
  long id; int tag; int tag_free; int thread; int kind; int live; int user_buf_id;
  int next_free;                          // free-list link (index), -1 = none
};

struct State{
  char* arena; size_t bump; size_t high;
  int active; AllocCfg cfg; uint64_t rng[2];
  Block* blocks; int nblocks; int capblocks;
  int free_head[2]; int free_tail[2];     // [0] C++ blocks, [1] C blocks: singly linked lists in release order
  AllocError* errs; int nerrs; int caperrs;
  AllocStats st;
  long next_id;
  int lock;
};
State G;

__thread int t_scope=0;
__thread int t_tag=-1;
__thread long t_count=0;
__thread long t_fail_at=0;
__thread int t_fault_fired=0;

void lock(){ while(__atomic_exchange_n(&G.lock,1,__ATOMIC_ACQUIRE)){} }
void unlock(){ __atomic_store_n(&G.lock,0,__ATOMIC_RELEASE); }

void* sys_malloc(size_t n){ return __real_malloc?__real_malloc(n):malloc(n); }
void sys_free(void* p){ if(__real_free) __real_free(p); else free(p); }
void* sys_realloc(void* p,size_t n){ return __real_realloc?__real_realloc(p,n):realloc(p,n); }

void ensure_arena(){
  if(G.arena) return;
  void* p=mmap(0,ARENA_BYTES,PROT_READ|PROT_WRITE,MAP_PRIVATE|MAP_ANONYMOUS|MAP_NORESERVE,-1,0);
  if(p==MAP_FAILED){ fprintf(stderr,"simalloc: cannot map arena\n"); abort(); }
  G.arena=(char*)p; G.bump=0; G.high=0;
  if(__asan_poison_memory_region) __asan_poison_memory_region(G.arena,ARENA_BYTES);
}
bool in_arena(const void* p){ return G.arena && (const char*)p>=G.arena && (const char*)p<G.arena+ARENA_BYTES; }

uint64_t rnd(){
  uint64_t s1=G.rng[0],s0=G.rng[1],r=s0+s1;
  G.rng[0]=s0; s1^=s1<<23; G.rng[1]=s1^s0^(s1>>18)^(s0>>5);
  return r;
}
void err(int kind,Block* b){
  if(G.nerrs==G.caperrs){ G.caperrs=G.caperrs?G.caperrs*2:16; G.errs=(AllocError*)sys_realloc(G.errs,sizeof(AllocError)*G.caperrs); }
  AllocError e; e.kind=kind; e.block_id=b?b->id:-1; e.tag=b?b->tag:-1; e.tag_free=t_tag; e.size=b?b->size:0;
  G.errs[G.nerrs++]=e;
}
// blocks are carved in address order, so the array is sorted by user address
int find_block(const void* p){
  int lo=0,hi=G.nblocks-1,ans=-1;
  while(lo<=hi){ int mid=(lo+hi)/2; if(G.blocks[mid].user<=(const char*)p){ ans=mid; lo=mid+1; } else hi=mid-1; }
  return ans;
}
void fill_words(char* p,size_t n,uint64_t pat){
  size_t w=n/8; uint64_t* q=(uint64_t*)p;
  for(size_t i=0;i<w;i++) q[i]=pat;
  for(size_t i=w*8;i<n;i++) p[i]=(char)(pat>>(8*(i&7)));
}
bool check_words(const char* p,size_t n,uint64_t pat){
  size_t w=n/8; const uint64_t* q=(const uint64_t*)p;
  for(size_t i=0;i<w;i++) if(q[i]!=pat) return false;
  return true;
}
uint64_t fresh_pattern(){
  switch(G.cfg.fill){ case FILL_ZERO: return 0; case FILL_A5: return 0xa5a5a5a5a5a5a5a5ULL; default: return NAN_PAYLOAD; }
}

void* arena_alloc(size_t size,int kind,int user_buf_id){
  ensure_arena();
  size_t cap=(size+7)&~(size_t)7; if(cap==0) cap=8;
  int which=(kind==KIND_C)?1:0;
  int policy=(kind==KIND_C)?G.cfg.c_reuse:G.cfg.reuse;
  if(policy==REUSE_NONE && G.bump>ARENA_BYTES/2) policy=REUSE_LIFO;   // very long runs: recycle rather than exhaust the arena
  Block* b=0;
  if(kind!=KIND_USER && policy!=REUSE_NONE){
    // candidates: freed blocks of exactly this capacity, in release order
    int cand[64]; int nc=0; int prev_of[64];
    int prev=-1;
    for(int i=G.free_head[which];i>=0;prev=i,i=G.blocks[i].next_free)
      if(G.blocks[i].cap==cap && nc<64){ cand[nc]=i; prev_of[nc]=prev; nc++; }
    if(nc>0){
      int pick=(policy==REUSE_LIFO)?nc-1:(policy==REUSE_FIFO?0:(int)(rnd()%(uint64_t)nc));
      int idx=cand[pick],pv=prev_of[pick];
      if(pv<0) G.free_head[which]=G.blocks[idx].next_free; else G.blocks[pv].next_free=G.blocks[idx].next_free;
      if(G.free_tail[which]==idx) G.free_tail[which]=pv;
      b=&G.blocks[idx];
      if(__asan_unpoison_memory_region) __asan_unpoison_memory_region(b->user,b->cap);
      else if(!check_words(b->user,b->cap,FREED_PATTERN)) err(AERR_WRITE_AFTER_FREE,b);
      if(which) G.st.c_reused++; else G.st.reused++;
    }
  }
  if(!b){
    size_t res=0;
    if(kind!=KIND_USER){
      if(G.cfg.residue==RESIDUE_16) res=16; else if(G.cfg.residue==RESIDUE_RANDOM) res=(rnd()&1)?16:0;
    }
    if(res) G.st.residue16++;
    size_t start=G.bump+GUARD+res;
    size_t end=start+cap;
    size_t nb=(end+GUARD+31)&~(size_t)31;
    if(nb>ARENA_BYTES){ fprintf(stderr,"simalloc: arena exhausted\n"); abort(); }
    if(G.nblocks==G.capblocks){ G.capblocks=G.capblocks?G.capblocks*2:256; G.blocks=(Block*)sys_realloc(G.blocks,sizeof(Block)*G.capblocks); }
    b=&G.blocks[G.nblocks++];
    b->user=G.arena+start; b->cap=cap; b->next_free=-1;
    if(!__asan_poison_memory_region){ fill_words(G.arena+G.bump,start-G.bump,0xfdfdfdfdfdfdfdfdULL); fill_words(G.arena+end,nb-end,0xfdfdfdfdfdfdfdfdULL); }
    else __asan_unpoison_memory_region(b->user,cap);
    G.bump=nb; if(G.bump>G.high) G.high=G.bump;
  }
  b->size=size; b->id=G.next_id++; b->tag=t_tag; b->tag_free=-1; b->thread=sched_self(); b->kind=kind; b->live=1; b->user_buf_id=user_buf_id;
  if(AnnotateNewMemory) AnnotateNewMemory(__FILE__,__LINE__,b->user,b->cap);
  if(kind!=KIND_USER) fill_words(b->user,b->cap,fresh_pattern());
  if(__asan_poison_memory_region && b->cap>size){ /* keep the 8-byte rounding tail addressable: ASan granularity */ }
  return b->user;
}

// returns true if p was an arena pointer (handled), false if the caller should pass it to the real allocator
bool arena_free(void* p,int expect_kind){
  if(!in_arena(p)) return false;
  int i=find_block(p);
  Block* b=(i>=0)?&G.blocks[i]:0;
  if(!b || b->user!=(char*)p){
    // interior or guard pointer
    if(b && (char*)p<b->user+b->cap && b->kind==KIND_USER) err(AERR_USER_BUFFER_FREED,b);
    else err(AERR_FOREIGN_FREE,b);
    return true;
  }
  if(b->kind==KIND_USER && expect_kind!=KIND_USER){ err(AERR_USER_BUFFER_FREED,b); return true; }
  if(!b->live){ err(AERR_DOUBLE_FREE,b); return true; }
  if(expect_kind!=KIND_USER && b->kind!=expect_kind){
    bool cxx_pair=(b->kind==KIND_CXX||b->kind==KIND_CXX_ARRAY)&&(expect_kind==KIND_CXX||expect_kind==KIND_CXX_ARRAY);
    // new[]/delete mismatches between the two C++ forms are reported; C vs C++ too
    (void)cxx_pair;
    err(AERR_MISMATCHED,b);
  }
  b->live=0; b->tag_free=t_tag;
  if(!__asan_poison_memory_region){
    // guard zones intact?
    const char* g0=b->user-16;
    if(!check_words(g0,16,0xfdfdfdfdfdfdfdfdULL) || !check_words(b->user+b->cap,16,0xfdfdfdfdfdfdfdfdULL)) err(AERR_GUARD,b);
  }
  fill_words(b->user,b->cap,FREED_PATTERN);
  if(__asan_poison_memory_region) __asan_poison_memory_region(b->user,b->cap);
  int pol=(b->kind==KIND_C)?G.cfg.c_reuse:G.cfg.reuse;
  // under the no-reuse policy freed blocks stay quarantined and are not even linked (the list would be scanned on every allocation)
  if(b->kind!=KIND_USER && (pol!=REUSE_NONE || G.bump>ARENA_BYTES/2)){
    int which=(b->kind==KIND_C)?1:0;
    b->next_free=-1;
    if(G.free_tail[which]>=0) G.blocks[G.free_tail[which]].next_free=i; else G.free_head[which]=i;
    G.free_tail[which]=i;
  }
  return true;
}

} // anon

void alloc_run_begin(const AllocCfg& cfg){
  lock();
  ensure_arena();
  G.cfg=cfg; G.active=1;
  G.rng[0]=cfg.seed*0x9e3779b97f4a7c15ULL+1; G.rng[1]=cfg.seed^0xd6e8feb86659fd93ULL; for(int i=0;i<4;i++) rnd();
  G.nblocks=0; G.bump=0; G.nerrs=0; G.next_id=1;
  G.free_head[0]=G.free_head[1]=-1; G.free_tail[0]=G.free_tail[1]=-1;
  memset(&G.st,0,sizeof G.st);
  unlock();
}

int alloc_run_end(){
  lock();
  int live=0;
  for(int i=0;i<G.nblocks;i++) if(G.blocks[i].live && G.blocks[i].kind!=KIND_USER) live++;
  G.active=0;
  // release everything: re-poison the used part of the arena
  if(__asan_poison_memory_region) __asan_poison_memory_region(G.arena,G.bump);
  G.nblocks=0; G.bump=0;
  G.free_head[0]=G.free_head[1]=-1; G.free_tail[0]=G.free_tail[1]=-1;
  unlock();
  return live;
}

int alloc_live_lib_blocks(BlockInfo* out,int max){
  lock();
  int n=0;
  for(int i=0;i<G.nblocks;i++){
    Block& b=G.blocks[i];
    if(b.live && b.kind!=KIND_USER){
      if(n<max){ out[n].id=b.id; out[n].size=b.size; out[n].tag=b.tag; out[n].thread=b.thread; out[n].is_user=0; out[n].is_array=(b.kind==KIND_CXX_ARRAY); out[n].live=(b.kind==KIND_C)?2:1; }
      n++;
    }
  }
  unlock();
  return n;
}

int alloc_errors(AllocError* out,int max){
  lock();
  int n=G.nerrs<max?G.nerrs:max;
  for(int i=0;i<n;i++) out[i]=G.errs[i];
  int total=G.nerrs;
  unlock();
  return total;
}

void alloc_check_guards(){
  if(__asan_poison_memory_region) return;
  lock();
  for(int i=0;i<G.nblocks;i++){
    Block& b=G.blocks[i];
    if(!b.live) continue;
    if(!check_words(b.user-16,16,0xfdfdfdfdfdfdfdfdULL) || !check_words(b.user+b.cap,16,0xfdfdfdfdfdfdfdfdULL)){
      bool dup=false; for(int e=0;e<G.nerrs;e++) if(G.errs[e].kind==AERR_GUARD && G.errs[e].block_id==b.id) dup=true;
      if(!dup) err(AERR_GUARD,&b);
    }
  }
  unlock();
}

void alloc_scope(int lib){ t_scope=lib; }
int alloc_in_scope(){ return t_scope; }
void alloc_tag(int tag){ t_tag=tag; }
long alloc_count(){ return t_count; }
void alloc_count_reset(){ t_count=0; }
void alloc_fail_at(long k){ t_fail_at=k; t_fault_fired=0; t_count=0; }
int alloc_fault_fired(){ return t_fault_fired; }

double* user_buffer_alloc(size_t nd,int buf_id){
  lock(); void* p=arena_alloc(nd*sizeof(double),KIND_USER,buf_id); unlock();
  return (double*)p;
}
void user_buffer_free(double* p){ lock(); arena_free(p,KIND_USER); unlock(); }

int alloc_classify(const void* p,size_t bytes,long* block_id,int* user_buf_id,size_t* offset){
  if(!in_arena(p)) return RANGE_NONE;
  lock();
  int i=find_block(p);
  int r=RANGE_NONE;
  if(i>=0){
    Block& b=G.blocks[i];
    if((const char*)p+bytes<=b.user+b.size || ((const char*)p<b.user+b.cap && bytes==0)){
      if(block_id) *block_id=b.id; if(offset) *offset=(size_t)((const char*)p-b.user); if(user_buf_id) *user_buf_id=b.user_buf_id;
      r=!b.live?RANGE_FREED:(b.kind==KIND_USER?RANGE_USER_BUFFER:RANGE_LIB_BLOCK);
    }
  }
  unlock();
  return r;
}

AllocStats alloc_stats(){ return G.st; }

// ---- entry points used by the operator replacements and the malloc wrappers
static void* cxx_new(size_t n,bool array,bool nothrow){
  if(G.active && t_scope){
    sched_yield(SITE_ALLOC);
    t_count++;
    if(t_fail_at>0 && t_count==t_fail_at){
      t_fault_fired=1; G.st.faults_fired++;
      if(nothrow) return 0;
      throw std::bad_alloc();
    }
    if(G.cfg.passthrough){ G.st.cxx_allocs++; void* q=sys_malloc(n?n:1); if(!q){ if(nothrow) return 0; throw std::bad_alloc(); } return q; }
    lock(); G.st.cxx_allocs++; void* p=arena_alloc(n,array?KIND_CXX_ARRAY:KIND_CXX,-1); unlock();
    return p;
  }
  void* p=sys_malloc(n?n:1);
  if(!p){ if(nothrow) return 0; throw std::bad_alloc(); }
  return p;
}
static void cxx_delete(void* p,bool array){
  if(!p) return;
  if(in_arena(p)){
    if(G.active && t_scope) sched_yield(SITE_FREE);
    lock(); G.st.cxx_frees++; arena_free(p,array?KIND_CXX_ARRAY:KIND_CXX); unlock();
    return;
  }
  if(G.active && t_scope) sched_yield(SITE_FREE);
  sys_free(p);
}

void* c_alloc(size_t n,bool zero){
  if(G.active && t_scope && G.cfg.c_reuse!=REUSE_NONE && !G.cfg.passthrough){
    sched_yield(SITE_CALLOC);
    lock(); G.st.c_allocs++; void* p=arena_alloc(n,KIND_C,-1); unlock();
    if(zero) memset(p,0,n);
    return p;
  }
  if(G.active && t_scope) sched_yield(SITE_CALLOC);
  if(zero) return __real_calloc?__real_calloc(1,n):calloc(1,n);
  return sys_malloc(n);
}
void c_free(void* p){
  if(!p) return;
  if(in_arena(p)){
    if(G.active && t_scope) sched_yield(SITE_CFREE);
    lock(); G.st.c_frees++; arena_free(p,KIND_C); unlock();
    return;
  }
  if(G.active && t_scope) sched_yield(SITE_CFREE);
  sys_free(p);
}
void* c_realloc(void* p,size_t n){
  if(p && in_arena(p)){
    lock(); int i=find_block(p); size_t old=(i>=0)?G.blocks[i].size:0; unlock();
    void* q=c_alloc(n,false);
    memcpy(q,p,old<n?old:n);
    c_free(p);
    return q;
  }
  if(!p) return c_alloc(n,false);
  return sys_realloc(p,n);
}

}

// ---- S1: replacement allocation functions
void* operator new(size_t n){ return verif::cxx_new(n,false,false); }
void* operator new[](size_t n){ return verif::cxx_new(n,true,false); }
void* operator new(size_t n,const std::nothrow_t&) noexcept{ return verif::cxx_new(n,false,true); }
void* operator new[](size_t n,const std::nothrow_t&) noexcept{ return verif::cxx_new(n,true,true); }
void operator delete(void* p) noexcept{ verif::cxx_delete(p,false); }
void operator delete[](void* p) noexcept{ verif::cxx_delete(p,true); }
void operator delete(void* p,size_t) noexcept{ verif::cxx_delete(p,false); }
void operator delete[](void* p,size_t) noexcept{ verif::cxx_delete(p,true); }
void operator delete(void* p,const std::nothrow_t&) noexcept{ verif::cxx_delete(p,false); }
void operator delete[](void* p,const std::nothrow_t&) noexcept{ verif::cxx_delete(p,true); }

// ---- S2: wrappers, active only in engines linked with -Wl,--wrap=malloc,--wrap=calloc,--wrap=realloc,--wrap=free
extern "C"{
void* __wrap_malloc(size_t n){ return verif::c_alloc(n,false); }
void* __wrap_calloc(size_t a,size_t b){ return verif::c_alloc(a*b,true); }
void* __wrap_realloc(void* p,size_t n){ return verif::c_realloc(p,n); }
void  __wrap_free(void* p){ verif::c_free(p); }
}
