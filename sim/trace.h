// Event log of one run: a rolling hash (always) and the text (when verbose).
// Logging never draws from a PRNG and never reads a clock; addresses never enter it.
#ifndef VERIF_TRACE_H
#define VERIF_TRACE_H
#include <string>
#include <cstdint>
#include <cstdio>
#include <cstdarg>
#include <cstring>
#include <map>
#include <vector>
#include "json.h"

namespace verif{

inline uint64_t fnv1a(const void* data,size_t n,uint64_t h=1469598103934665603ULL){
  const unsigned char* p=(const unsigned char*)data;
  for(size_t i=0;i<n;i++){ h^=p[i]; h*=1099511628211ULL; }
  return h;
}
inline uint64_t fnv1a(const std::string& s,uint64_t h=1469598103934665603ULL){ return fnv1a(s.data(),s.size(),h); }

struct Trace{
  uint64_t hash; long events; bool verbose; std::string text;
  Trace():hash(1469598103934665603ULL),events(0),verbose(false){}
  void reset(bool v){ hash=1469598103934665603ULL; events=0; verbose=v; text.clear(); }
  void ev(const char* fmt,...) __attribute__((format(printf,2,3))){
    char buf[512];
    va_list ap; va_start(ap,fmt); int n=vsnprintf(buf,sizeof buf,fmt,ap); va_end(ap);
    if(n<0) n=0; if(n>=(int)sizeof buf) n=sizeof buf-1;
    hash=fnv1a(buf,(size_t)n,hash); hash=fnv1a("\n",1,hash); events++;
    if(verbose){ text.append(buf,(size_t)n); text+='\n'; }
  }
  void bytes(const void* p,size_t n){ hash=fnv1a(p,n,hash); }
};

// counters aggregated over all runs of a worker (coverage, fired faults, probes)
struct Counters{
  std::map<std::string,long> c;
  void add(const std::string& k,long n=1){ c[k]+=n; }
};

// outcome of one executed plan
struct Outcome{
  bool ok;
  std::string cls;     // violation class, e.g. "ledger:double-free"
  std::string sig;     // signature inside the class (operation kind, dimensions, site)
  std::string detail;  // human readable
  uint64_t event_hash;
  uint64_t shape;      // hash of the abstract shape of the run (for distinct counting)
  bool nontrivial;
  long sim_steps;      // scheduler steps / operations / ODE applies
  double sim_time;     // simulated time covered (ODE time), 0 if not meaningful
  std::string prop;    // property the violation belongs to (engines serving several properties)
  long evals;          // executions this run stands for (fault enumeration runs one history many times)
  Json plan_patch;     // keys to merge into the plan when it is reported (recorded schedule, ...)
  Outcome():ok(true),event_hash(0),shape(0),nontrivial(false),sim_steps(0),sim_time(0),evals(1){}
  void fail(const std::string& c,const std::string& s,const std::string& d){
    if(!ok) return; // first failure wins
    ok=false; cls=c; sig=s; detail=d;
  }
};

inline std::string hex64(uint64_t v){ char b[20]; snprintf(b,sizeof b,"%016llx",(unsigned long long)v); return b; }

}
#endif
