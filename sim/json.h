// Minimal JSON value with exact round-trip of doubles and 64-bit integers.
#ifndef VERIF_JSON_H
#define VERIF_JSON_H
#include <string>
#include <cerrno>
#include <vector>
#include <utility>
#include <cstdio>
#include <cstdlib>
#include <cstring>
#include <cstdint>
#include <cmath>
#include <stdexcept>

namespace verif{

struct Json{
  enum Type{Null,Bool,Int,Num,Str,Arr,Obj} type;
  bool b; long long i; double d; std::string s;
  std::vector<Json> a;
  std::vector<std::pair<std::string,Json> > o;

  Json():type(Null),b(false),i(0),d(0){}
  Json(bool v):type(Bool),b(v),i(0),d(0){}
  Json(int v):type(Int),b(false),i(v),d(v){}
  Json(unsigned v):type(Int),b(false),i(v),d(v){}
  Json(long v):type(Int),b(false),i(v),d((double)v){}
  Json(long long v):type(Int),b(false),i(v),d((double)v){}
  Json(unsigned long v):type(Int),b(false),i((long long)v),d((double)v){}
  Json(double v):type(Num),b(false),i((long long)0),d(v){}
  Json(const char* v):type(Str),b(false),i(0),d(0),s(v){}
  Json(const std::string& v):type(Str),b(false),i(0),d(0),s(v){}
  static Json array(){ Json j; j.type=Arr; return j; }
  static Json object(){ Json j; j.type=Obj; return j; }

  bool is_null() const{ return type==Null; }
  bool has(const std::string& k) const{
    for(size_t n=0;n<o.size();n++) if(o[n].first==k) return true;
    return false;
  }
  const Json& at(const std::string& k) const{
    for(size_t n=0;n<o.size();n++) if(o[n].first==k) return o[n].second;
    static Json nul; return nul;
  }
  Json& operator[](const std::string& k){
    if(type==Null) type=Obj;
    for(size_t n=0;n<o.size();n++) if(o[n].first==k) return o[n].second;
    o.push_back(std::make_pair(k,Json()));
    return o.back().second;
  }
  const Json& operator[](const std::string& k) const{ return at(k); }
  Json& push(const Json& v){ if(type==Null) type=Arr; a.push_back(v); return a.back(); }
  size_t size() const{ return type==Arr?a.size():o.size(); }
  const Json& operator[](size_t n) const{ return a[n]; }
  Json& operator[](size_t n){ return a[n]; }

  long long as_int(long long def=0) const{
    if(type==Int) return i; if(type==Num) return (long long)d; if(type==Bool) return b; return def;
  }
  double as_num(double def=0) const{
    if(type==Int) return (double)i; if(type==Num) return d; return def;
  }
  bool as_bool(bool def=false) const{
    if(type==Bool) return b; if(type==Int) return i!=0; return def;
  }
  std::string as_str(const std::string& def="") const{ return type==Str?s:def; }

  static void esc(std::string& out,const std::string& s){
    out+='"';
    for(size_t n=0;n<s.size();n++){
      unsigned char c=s[n];
      if(c=='"'||c=='\\'){ out+='\\'; out+=c; }
      else if(c=='\n') out+="\\n";
      else if(c=='\t') out+="\\t";
      else if(c<0x20){ char buf[8]; snprintf(buf,sizeof buf,"\\u%04x",c); out+=buf; }
      else out+=c;
    }
    out+='"';
  }
  void dump(std::string& out) const{
    char buf[64];
    switch(type){
      case Null: out+="null"; break;
      case Bool: out+=b?"true":"false"; break;
      case Int: snprintf(buf,sizeof buf,"%lld",i); out+=buf; break;
      case Num:
        if(std::isnan(d)||std::isinf(d)){ out+="null"; break; }
        snprintf(buf,sizeof buf,"%.17g",d);
        out+=buf;
        if(!strpbrk(buf,".eE")) out+=".0";
        break;
      case Str: esc(out,s); break;
      case Arr:
        out+='[';
        for(size_t n=0;n<a.size();n++){ if(n) out+=','; a[n].dump(out); }
        out+=']'; break;
      case Obj:
        out+='{';
        for(size_t n=0;n<o.size();n++){ if(n) out+=','; esc(out,o[n].first); out+=':'; o[n].second.dump(out); }
        out+='}'; break;
    }
  }
  std::string dump() const{ std::string r; dump(r); return r; }

  // ---- parser
  struct P{
    const char* p; const char* e;
    void ws(){ while(p<e&&(*p==' '||*p=='\n'||*p=='\t'||*p=='\r')) p++; }
    void fail(const char* m){ throw std::runtime_error(std::string("json: ")+m); }
    Json val(){
      ws(); if(p>=e) fail("eof");
      char c=*p;
      if(c=='{'){ p++; Json j=Json::object(); ws(); if(p<e&&*p=='}'){p++;return j;}
        while(true){ ws(); std::string k=str(); ws(); if(p>=e||*p!=':') fail(":"); p++; Json v=val(); j.o.push_back(std::make_pair(k,v)); ws();
          if(p<e&&*p==','){p++;continue;} if(p<e&&*p=='}'){p++;break;} fail("obj"); }
        return j; }
      if(c=='['){ p++; Json j=Json::array(); ws(); if(p<e&&*p==']'){p++;return j;}
        while(true){ j.a.push_back(val()); ws(); if(p<e&&*p==','){p++;continue;} if(p<e&&*p==']'){p++;break;} fail("arr"); }
        return j; }
      if(c=='"') return Json(str());
      if(!strncmp(p,"true",4)){ p+=4; return Json(true); }
      if(!strncmp(p,"false",5)){ p+=5; return Json(false); }
      if(!strncmp(p,"null",4)){ p+=4; return Json(); }
      const char* q=p; bool isint=true;
      if(*q=='-') q++;
      while(q<e&&((*q>='0'&&*q<='9')||*q=='.'||*q=='e'||*q=='E'||*q=='+'||*q=='-')){ if(*q=='.'||*q=='e'||*q=='E') isint=false; q++; }
      if(q==p) fail("value");
      std::string t(p,q); p=q;
      // integers are kept exact whenever they fit (seeds use up to 63 bits: a value that went through a double would replay another stream)
      if(isint){ errno=0; long long v=strtoll(t.c_str(),0,10); if(errno!=ERANGE) return Json(v); }
      return Json(strtod(t.c_str(),0));
    }
    std::string str(){
      if(p>=e||*p!='"') fail("string"); p++;
      std::string r;
      while(p<e&&*p!='"'){
        if(*p=='\\'){ p++; if(p>=e) fail("esc");
          switch(*p){ case 'n': r+='\n'; break; case 't': r+='\t'; break; case 'r': r+='\r'; break;
            case 'b': r+='\b'; break; case 'f': r+='\f'; break;
            case 'u': { if(e-p<5) fail("u"); unsigned v=(unsigned)strtoul(std::string(p+1,p+5).c_str(),0,16); p+=4;
                        if(v<0x80) r+=(char)v; else if(v<0x800){ r+=(char)(0xc0|(v>>6)); r+=(char)(0x80|(v&0x3f)); }
                        else { r+=(char)(0xe0|(v>>12)); r+=(char)(0x80|((v>>6)&0x3f)); r+=(char)(0x80|(v&0x3f)); } break; }
            default: r+=*p; }
          p++; }
        else r+=*p++;
      }
      if(p>=e) fail("unterminated"); p++;
      return r;
    }
  };
  static Json parse(const std::string& text){
    P ps; ps.p=text.data(); ps.e=text.data()+text.size();
    Json j=ps.val(); ps.ws();
    return j;
  }
};

inline std::string read_file(const std::string& path){
  FILE* f=fopen(path.c_str(),"rb"); if(!f) throw std::runtime_error("cannot open "+path);
  std::string r; char buf[65536]; size_t n;
  while((n=fread(buf,1,sizeof buf,f))>0) r.append(buf,n);
  fclose(f); return r;
}

}
#endif
