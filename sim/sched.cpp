// Compiled without -fsanitize=*: see sched.h. C-style on purpose.
#include "sched.h"
#include <pthread.h>
#include <stdlib.h>
#include <string.h>
#include <stdio.h>
#include <unistd.h>
#include <sys/syscall.h>
#include <linux/futex.h>
#include <limits.h>
#include <ucontext.h>

namespace verif{

namespace{

enum TState{ T_UNUSED=0, T_RUNNABLE=1, T_BLOCKED=2, T_DONE=3 };

struct SThread{
  int word;            // baton word: 1 = may run
  int state;
  int block_key;
  int in_op;
  int prio;            // PCT
  pthread_t th;
  sched_body_fn fn; void* arg;
};

struct SchedState{
  int active;
  int policy;
  uint64_t rng[4];
  const int* replay; int nreplay; int replay_pos;
  int* dec; int ndec; int capdec;
  int nthreads;
  SThread t[SCHED_MAXT];
  int main_word;
  int current;         // tid holding the baton, -1 = main
  long steps, decisions, switches, preempt_in_op;
  long budget;
  uint64_t hash;
  int deadlock, overflow, abort_all;
  // PCT / k-preempt change points (step numbers)
  long change[8]; int nchange; int next_low_prio;
  pthread_key_t key; int key_made;
  int fibers;          // cooperative tasks on one OS thread instead of parked real threads (no thread-local storage of their own)
};

SchedState S;
__thread int g_tid=-1;
int g_fibers_next=0;
ucontext_t g_main_ctx; ucontext_t g_ctx[SCHED_MAXT]; char* g_stack[SCHED_MAXT];
enum { FIBER_STACK=256*1024 };
inline int cur_tid(){ return S.fibers?S.current:g_tid; }

long raw_futex(int* uaddr,int op,int val){
  long ret;
  register long r10 __asm__("r10")=0;
  register long r8 __asm__("r8")=0;
  register long r9 __asm__("r9")=0;
  __asm__ volatile("syscall":"=a"(ret):"0"((long)SYS_futex),"D"(uaddr),"S"((long)op),"d"((long)val),"r"(r10),"r"(r8),"r"(r9):"rcx","r11","memory");
  return ret;
}
void baton_post(int* w){
  __atomic_store_n(w,1,__ATOMIC_SEQ_CST);
  raw_futex(w,FUTEX_WAKE_PRIVATE,INT_MAX);
}
void baton_wait(int* w){
  while(__atomic_load_n(w,__ATOMIC_SEQ_CST)!=1) raw_futex(w,FUTEX_WAIT_PRIVATE,0);
  __atomic_store_n(w,0,__ATOMIC_SEQ_CST);
}

uint64_t rotl(uint64_t x,int k){ return (x<<k)|(x>>(64-k)); }
uint64_t rnd(){
  uint64_t* s=S.rng;
  uint64_t r=rotl(s[1]*5,7)*9,t=s[1]<<17;
  s[2]^=s[0]; s[3]^=s[1]; s[1]^=s[2]; s[0]^=s[3]; s[2]^=t; s[3]=rotl(s[3],45);
  return r;
}
void seed_rng(uint64_t seed){
  uint64_t x=seed;
  for(int i=0;i<4;i++){
    uint64_t z=(x+=0x9e3779b97f4a7c15ULL);
    z=(z^(z>>30))*0xbf58476d1ce4e5b9ULL; z=(z^(z>>27))*0x94d049bb133111ebULL; S.rng[i]=z^(z>>31);
  }
}
void mixhash(int a,int b){
  unsigned char buf[8]; memcpy(buf,&a,4); memcpy(buf+4,&b,4);
  for(int i=0;i<8;i++){ S.hash^=buf[i]; S.hash*=1099511628211ULL; }
}
// fixed buffer: the scheduler must not call the (intercepted) allocator from simulated threads
int dec_buf[1<<17];
void record(int v){
  if(S.ndec<(int)(sizeof dec_buf/sizeof dec_buf[0])) dec_buf[S.ndec++]=v;
}

int lowest_runnable(){
  for(int i=0;i<S.nthreads;i++) if(S.t[i].state==T_RUNNABLE) return i;
  return -1;
}
int count_runnable(){
  int n=0; for(int i=0;i<S.nthreads;i++) if(S.t[i].state==T_RUNNABLE) n++; return n;
}

// choose who runs next. cur may be -1 (main) or not runnable.
int choose(int cur){
  int nr=count_runnable();
  if(nr==0) return -1;
  bool cur_ok=(cur>=0 && S.t[cur].state==T_RUNNABLE);
  if(nr==1 && cur_ok) return cur;       // not a decision point
  S.decisions++;
  int pick=-1;
  if(S.replay){
    while(S.replay_pos<S.nreplay && S.replay[S.replay_pos]>=100) S.replay_pos++; // unconsumed coins
    if(S.replay_pos<S.nreplay){
      int want=S.replay[S.replay_pos++];
      if(want>=0 && want<S.nthreads && S.t[want].state==T_RUNNABLE) pick=want;
      else pick=cur_ok?cur:lowest_runnable();
    }else pick=cur_ok?cur:lowest_runnable();
  }
  else if(S.overflow||S.policy==POLICY_SEQUENTIAL){
    pick=cur_ok?cur:lowest_runnable();
  }
  else if(S.policy==POLICY_UNIFORM){
    int k=(int)(rnd()%(uint64_t)nr);
    for(int i=0;i<S.nthreads;i++) if(S.t[i].state==T_RUNNABLE){ if(k==0){ pick=i; break; } k--; }
  }
  else if(S.policy==POLICY_PCT){
    for(int c=0;c<S.nchange;c++) if(S.change[c]==S.steps && cur_ok){ S.t[cur].prio=S.next_low_prio--; }
    int best=-1;
    for(int i=0;i<S.nthreads;i++) if(S.t[i].state==T_RUNNABLE && (best<0||S.t[i].prio>S.t[best].prio)) best=i;
    pick=best;
  }
  else{ // KPREEMPT
    bool preempt=false;
    for(int c=0;c<S.nchange;c++) if(S.change[c]==S.steps) preempt=true;
    if(cur_ok && !preempt) pick=cur;
    else{
      int cand=nr-(cur_ok?1:0);
      if(cand<=0) pick=cur;
      else{
        int k=(int)(rnd()%(uint64_t)cand);
        for(int i=0;i<S.nthreads;i++) if(S.t[i].state==T_RUNNABLE && i!=cur){ if(k==0){ pick=i; break; } k--; }
      }
    }
  }
  record(pick);
  return pick;
}

void hand_over(int from,int to){
  // from: tid or -1 (main); to: tid or -1 (main)
  if(from==to) return;
  S.switches++;
  if(from>=0 && S.t[from].in_op && S.t[from].state!=T_DONE) S.preempt_in_op++;
  S.current=to;
  if(S.fibers) return;      // the caller switches context itself
  if(to>=0) baton_post(&S.t[to].word); else baton_post(&S.main_word);
}
void fiber_switch(int from,int to){
  ucontext_t* f=(from>=0)?&g_ctx[from]:&g_main_ctx; ucontext_t* t=(to>=0)?&g_ctx[to]:&g_main_ctx;
  swapcontext(f,t);
}
void fiber_finish(int tid);
void fiber_entry(int tid){
  S.t[tid].fn(S.t[tid].arg,tid);
  fiber_finish(tid);
}

int finish_and_choose(int tid);
void fiber_finish(int tid){
  int next=finish_and_choose(tid);
  hand_over(tid,next);
  if(next>=0) setcontext(&g_ctx[next]); else setcontext(&g_main_ctx);
}
void thread_finished(void*){
  // runs as a pthread key destructor: after every C++ thread_local destructor of this thread
  int tid=g_tid;
  if(tid<0||!S.active) return;
  int next=finish_and_choose(tid);
  hand_over(tid,next);
}
int finish_and_choose(int tid){
  S.steps++; mixhash(tid,-2);
  S.t[tid].state=T_DONE;
  int next=choose(-1);
  if(next<0){
    // nobody runnable: either all done, or deadlock
    bool alldone=true;
    for(int i=0;i<S.nthreads;i++) if(S.t[i].state!=T_DONE) alldone=false;
    if(!alldone){
      S.deadlock=1; S.abort_all=1;
      for(int i=0;i<S.nthreads;i++) if(S.t[i].state==T_BLOCKED) S.t[i].state=T_RUNNABLE;
      next=lowest_runnable();
    }
  }
  return next;
}

void* entry(void* p){
  int tid=(int)(long)p;
  g_tid=tid;
  pthread_setspecific(S.key,(void*)1);   // arm the exit hook
  baton_wait(&S.t[tid].word);
  S.t[tid].fn(S.t[tid].arg,tid);
  return 0;
}

} // anon

void sched_begin(int policy,uint64_t seed,const int* replay,int nreplay,int pct_depth,long step_budget){
  pthread_key_t key=S.key; int km=S.key_made;
  memset(&S,0,sizeof S);
  S.key=key; S.key_made=km;
  if(!S.key_made){ pthread_key_create(&S.key,thread_finished); S.key_made=1; }
  S.fibers=g_fibers_next;
  S.active=1; S.policy=policy; S.replay=replay; S.nreplay=nreplay; S.current=-1;
  S.hash=1469598103934665603ULL; S.budget=step_budget;
  seed_rng(seed);
  S.nchange=pct_depth>8?8:pct_depth; if(S.nchange<0) S.nchange=0;
  long horizon=step_budget>0&&step_budget<200?step_budget:200;
  for(int c=0;c<S.nchange;c++) S.change[c]=(long)(rnd()%(uint64_t)horizon);
  S.next_low_prio=-1;
}

int sched_spawn(sched_body_fn fn,void* arg){
  if(S.nthreads>=SCHED_MAXT) return -1;
  int tid=S.nthreads++;
  S.t[tid].fn=fn; S.t[tid].arg=arg; S.t[tid].state=T_RUNNABLE; S.t[tid].word=0;
  S.t[tid].prio=(int)(rnd()%1000)+10;
  if(S.fibers){
    if(!g_stack[tid]) g_stack[tid]=(char*)malloc(FIBER_STACK);
    getcontext(&g_ctx[tid]); g_ctx[tid].uc_stack.ss_sp=g_stack[tid]; g_ctx[tid].uc_stack.ss_size=FIBER_STACK; g_ctx[tid].uc_link=&g_main_ctx;
    makecontext(&g_ctx[tid],(void(*)())fiber_entry,1,tid);
    return tid;
  }
  pthread_create(&S.t[tid].th,0,entry,(void*)(long)tid);
  return tid;
}

void sched_run(){
  int first=choose(-1);
  if(S.fibers){
    if(first>=0){ hand_over(-1,first); fiber_switch(-1,first); }
    S.current=-1;
    return;
  }
  if(first>=0){
    hand_over(-1,first);
    baton_wait(&S.main_word);
  }
  for(int i=0;i<S.nthreads;i++) pthread_join(S.t[i].th,0);
  S.current=-1;
}
void sched_use_fibers(int on){ g_fibers_next=on; }

SchedResult sched_end(){
  SchedResult r;
  r.steps=S.steps; r.decisions=S.decisions; r.switches=S.switches; r.preempt_in_op=S.preempt_in_op;
  r.hash=S.hash; r.deadlock=S.deadlock; r.overflow=S.overflow;
  S.dec=0; S.ndec=S.capdec=0;
  S.active=0; S.nthreads=0;
  return r;
}

int sched_active(){ return S.active; }
int sched_aborted(){ return S.abort_all; }
int sched_self(){ return S.active?cur_tid():-1; }
long sched_step(){ return S.steps; }
int sched_ndecisions(){ return S.ndec; }
const int* sched_decisions(){ return dec_buf; }

void sched_set_in_op(int flag){
  int tid=cur_tid(); if(!S.active||tid<0) return;
  S.t[tid].in_op=flag;
}

void sched_yield(int site){
  int tid=cur_tid();
  if(!S.active||tid<0||S.current!=tid) return;
  S.steps++; mixhash(tid,site);
  if(S.budget>0 && S.steps>S.budget) S.overflow=1;
  int next=choose(tid);
  if(next!=tid && next>=0){
    hand_over(tid,next);
    if(S.fibers) fiber_switch(tid,next); else baton_wait(&S.t[tid].word);
  }
}

void sched_block(int key,int site){
  int tid=cur_tid();
  if(!S.active||tid<0) return;
  if(S.abort_all) return;
  S.steps++; mixhash(tid,site);
  S.t[tid].state=T_BLOCKED; S.t[tid].block_key=key;
  int next=choose(tid);
  if(next<0){
    // deadlock: wake everybody in abort mode
    S.deadlock=1; S.abort_all=1;
    for(int i=0;i<S.nthreads;i++) if(S.t[i].state==T_BLOCKED) S.t[i].state=T_RUNNABLE;
    return;
  }
  hand_over(tid,next);
  if(S.fibers) fiber_switch(tid,next); else baton_wait(&S.t[tid].word);
}

void sched_wake(int key){
  if(!S.active) return;
  for(int i=0;i<S.nthreads;i++) if(S.t[i].state==T_BLOCKED && S.t[i].block_key==key) S.t[i].state=T_RUNNABLE;
}

int sched_coin(int percent){
  if(!S.active||cur_tid()<0||S.overflow) return 0;
  if(S.replay){
    // coins are stored in the same list, encoded as 100 (false) / 101 (true)
    if(S.replay_pos<S.nreplay && S.replay[S.replay_pos]>=100){ return S.replay[S.replay_pos++]-100; }
    return 0;
  }
  int v=(int)(rnd()%100)<percent?1:0;
  record(100+v);
  return v;
}

}
