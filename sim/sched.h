// S3: seeded baton scheduler. Real threads (thread-local storage must be real), exactly one
// runnable at a time. The baton is a raw futex on a plain word and this unit is compiled
// WITHOUT sanitizers, so ThreadSanitizer sees no happens-before edge from the scheduler.
// Nothing in here uses STL containers (a COMDAT shared with an instrumented unit would make
// the scheduler's own state visible to TSan).
#ifndef VERIF_SCHED_H
#define VERIF_SCHED_H
#include <stdint.h>

namespace verif{

enum { SCHED_MAXT=8 };
enum SchedPolicy{ POLICY_UNIFORM=0, POLICY_PCT=1, POLICY_KPREEMPT=2, POLICY_SEQUENTIAL=3 };

typedef void (*sched_body_fn)(void* arg,int tid);

struct SchedResult{
  long steps;            // yields executed
  long decisions;        // decision points (more than one candidate, or current not runnable)
  long switches;         // baton hand-overs
  long preempt_in_op;    // switches away from a thread that was inside an operation
  uint64_t hash;         // hash of the (thread,site) sequence actually executed
  int deadlock;          // 1 if every remaining thread was blocked
  int overflow;          // 1 if the step budget was exhausted
};

// One scheduler per process at a time.
// fibers: the simulated threads of the next sched_begin are cooperative tasks on the calling OS thread (fast; no thread-local storage of their own,
// so only for code that has none, i.e. the shared cache)
void sched_use_fibers(int on);
void sched_begin(int policy,uint64_t seed,const int* replay,int nreplay,int pct_depth,long step_budget);
int  sched_spawn(sched_body_fn fn,void* arg);      // returns tid; threads start parked
void sched_run();                                   // run all spawned threads to completion (serialised)
SchedResult sched_end();                            // after sched_run; frees state
int  sched_active();
int  sched_aborted();                                // a deadlock was detected: blocked threads must unwind
int  sched_self();                                  // tid of the calling simulated thread, -1 otherwise
void sched_yield(int site);                         // decision point; no-op outside simulated threads
void sched_set_in_op(int flag);
// blocking: a thread blocks on a key until another thread wakes that key
void sched_block(int key,int site);
void sched_wake(int key);
// recorded decisions (valid until sched_end)
int  sched_ndecisions();
const int* sched_decisions();
long sched_step();
// draw from the scheduler's stream (for sim_atomic spurious failures); consumes replay list when replaying
int  sched_coin(int percent);

}
#endif
