"""Static description of build configurations, engines and per-property batches."""

COMMON_ASAN = ["-O1", "-g1", "-fsanitize=address,alignment,bounds,null,unreachable,vla-bound,shift,integer-divide-by-zero",
               "-fno-sanitize-recover=all"]

CONFIGS = {
    "plain": {"flags": ["-O2", "-g1"], "nosan_flags": ["-O2", "-g1"], "ldflags": [], "workers": 16},
    "asan": {"flags": COMMON_ASAN, "nosan_flags": ["-O1", "-g1"], "ldflags": ["-fsanitize=address,undefined"], "workers": 8},
    "asan-avx": {"flags": ["-O3", "-mavx2", "-g1", "-fsanitize=address,alignment,bounds,null,unreachable,vla-bound",
                           "-fno-sanitize-recover=all"], "nosan_flags": ["-O1", "-g1"], "ldflags": ["-fsanitize=address,undefined"], "workers": 8},
    "tsan": {"flags": ["-O1", "-g1", "-fsanitize=thread"], "nosan_flags": ["-O1", "-g1"], "ldflags": ["-fsanitize=thread", "-rdynamic"], "workers": 16},
}

LIB = [("lib", "src/SUNalg.cpp"), ("lib", "src/SQuIDS.cpp"), ("lib", "src/MatrixExp.cpp"), ("lib", "src/const.cpp")]

ENGINES = {
    "cachesim": {
        "sources": [("nosan", "sim/sched.cpp"),
                    ("harness", "engines/cachesim/cachesim.cpp"),
                    ("harness", "engines/cachesim/cache_shared.cpp"),
                    ("harness", "engines/cachesim/cache_tls.cpp")],
    },
}

REAL_STUB_COMMON = {
    "real": ["every line of /repo/include and /repo/src that the engine links (compiled from the working tree)"],
    "simulated": [],
}

PROPS = {
    "C19": {
        "level": "exploration",
        "rule": ("plans are generated from (VERIF_SEED, run index): capacity 1..4, 70% concurrent runs of the shared (non thread-local) "
                 "cache with 2-3 simulated threads x 1-5 operations (7 in 20% of thorough runs) after a prefill of 0..capacity values, "
                 "15% single-thread histories of the shared and 15% of the thread-local variant (<=12 operations); scheduler policy "
                 "uniform / PCT(d<=3) / <=3 pre-emptions, spurious compare-exchange failures at 0/10/30%. Every load, store and "
                 "compare-exchange of the cache is a yield point before and after the access. distinct = hash of the executed "
                 "(thread, site) sequence combined with the recorded history; non-trivial = a concurrent run with at least one "
                 "pre-emption inside an operation, or a sequential run with >=2 operations"),
        "distinct_measure": "hash of the executed (thread,site) sequence + operation results",
        "real_vs_stub": {
            "real": ["include/SQuIDS/detail/Cache.h compiled unmodified from the working tree in both configurations", "std::thread/pthread threads"],
            "simulated": ["std::atomic<list_head> and atomic_compare_exchange_weak (sequentially consistent shim with yield points, S4)",
                          "the choice of which thread runs (S3 baton scheduler)"],
        },
        "assumptions": ["only sequentially consistent interleavings at atomic-operation granularity are explored (no weak-memory or compiler reordering)",
                        "a spurious compare_exchange_weak failure leaves 'expected' equal to the current value"],
        "batches": {
            "quick": [{"engine": "cachesim", "config": "plain", "runs": 60000}],
            "thorough": [{"engine": "cachesim", "config": "plain", "runs": 3000000, "deadline": 1200},
                         {"engine": "cachesim", "config": "asan", "runs": 300000, "deadline": 600, "base": 3000000}],
        },
    },
}
