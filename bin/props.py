"""Static description of build configurations, engines and per-property batches."""

COMMON_ASAN = ["-O1", "-g1", "-fsanitize=address,alignment,bounds,null,unreachable,vla-bound,shift,integer-divide-by-zero",
               "-fno-sanitize-recover=all"]

CONFIGS = {
    "plain": {"flags": ["-O2", "-g1"], "nosan_flags": ["-O2", "-g1"], "ldflags": [], "workers": 16},
    "asan": {"flags": COMMON_ASAN, "nosan_flags": ["-O1", "-g1"], "ldflags": ["-fsanitize=address,undefined"], "workers": 8},
    "asan-avx": {"flags": ["-O3", "-mavx2", "-g1", "-fsanitize=address,alignment,bounds,null,unreachable,vla-bound",
                           "-fno-sanitize-recover=all"], "nosan_flags": ["-O1", "-g1"], "ldflags": ["-fsanitize=address,undefined"], "workers": 8},
    "ubsan": {"flags": ["-O1", "-g1", "-fsanitize=undefined", "-fno-sanitize-recover=all"], "nosan_flags": ["-O1", "-g1"], "ldflags": ["-fsanitize=undefined"], "workers": 16},
    "tsan": {"flags": ["-O1", "-g1", "-fsanitize=thread"], "nosan_flags": ["-O1", "-g1"], "ldflags": ["-fsanitize=thread", "-rdynamic"], "workers": 16},
}

LIB = [("lib", "src/SUNalg.cpp"), ("lib", "src/SQuIDS.cpp"), ("lib", "src/MatrixExp.cpp"), ("lib", "src/const.cpp")]

ENGINES = {
    "cachesim": {
        "sources": [("nosan", "sim/sched.cpp"),
                    ("harness", "engines/cachesim/cachesim.cpp"),
                    ("harness", "engines/cachesim/cache_shared.cpp"),
                    ("harness", "engines/cachesim/cache_tls.cpp")],
        # automatic variables without an initialiser get a fixed non-zero pattern: a value the cache returns without ever having set it is then
        # visibly not one that was inserted (and the run stays deterministic)
        "defines": ["-ftrivial-auto-var-init=pattern"],
    },
}

ENGINES["vecsim"] = {
    "sources": LIB + [("nosan", "sim/sched.cpp"), ("nosan", "sim/simalloc.cpp"),
                      ("harness", "engines/vecsim/vecsim.cpp"), ("harness", "engines/vecsim/vs_ops1.cpp"), ("harness", "engines/vecsim/vs_ops2.cpp")]
               + [("harness", "engines/vecsim/stmt.cpp", ["-DSTMT_KIND=%d" % k]) for k in range(12)],
    "ldflags": ["-Wl,--wrap=malloc,--wrap=calloc,--wrap=realloc,--wrap=free"],
}

WRAP_MALLOC = ["-Wl,--wrap=malloc,--wrap=calloc,--wrap=realloc,--wrap=free"]
ENGINES["solversim"] = {
    "sources": LIB + [("nosan", "sim/sched.cpp"), ("nosan", "sim/simalloc.cpp"),
                      ("harness", "engines/solversim/solversim.cpp"), ("harness", "engines/solversim/steppers.cpp"), ("harness", "engines/solversim/ss_oracle.cpp")],
    "ldflags": WRAP_MALLOC,
}

ENGINES["expsim"] = {
    "sources": LIB + [("nosan", "sim/sched.cpp"), ("nosan", "sim/simalloc.cpp"), ("harness", "engines/expsim/expsim.cpp")],
    "ldflags": WRAP_MALLOC + ["-Wl,--wrap=gsl_rng_uniform_int"],
}

GSL_WRAPS = ["gsl_blas_zgemm", "gsl_matrix_complex_memcpy", "gsl_matrix_complex_scale", "gsl_matrix_complex_set_all", "gsl_matrix_complex_set_identity",
             "gsl_linalg_complex_LU_decomp", "gsl_linalg_complex_LU_solve", "gsl_eigen_hermv", "gsl_matrix_complex_get", "gsl_matrix_complex_set"]
ENGINES["threadsim"] = {
    "sources": LIB + [("nosan", "sim/sched.cpp"), ("nosan", "sim/simalloc.cpp"), ("harness", "engines/threadsim/threadsim.cpp"), ("harness", "engines/threadsim/gslwrap.cpp")],
    "ldflags": WRAP_MALLOC + ["-Wl,--wrap=gsl_rng_uniform_int"] + ["-Wl," + ",".join("--wrap=" + w for w in GSL_WRAPS)],
}

REAL_STUB_COMMON = {
    "real": ["every line of /repo/include and /repo/src that the engine links (compiled from the working tree)"],
    "simulated": [],
}

PROPS = {
    "C19": {
        "level": "exploration",
        "rule": ("plans are generated from (VERIF_SEED, run index): capacity 1..4, 70% concurrent runs of the shared (non thread-local) "
                 "cache with 2-3 simulated threads (cooperative tasks in the plain build, real threads under ASan) x 1-5 operations (7 in 20% of thorough runs) after a prefill of 0..capacity values, "
                 "15% single-thread histories of the shared and 15% of the thread-local variant (<=12 operations); scheduler policy "
                 "uniform / PCT(d<=3) / <=3 pre-emptions, spurious compare-exchange failures at 0/10/30%. Every load, store and "
                 "compare-exchange of the cache is a yield point before and after the access (before only, in half of the runs). The simulated atomics carry the memory orders "
                 "the code specifies; the payload is an instrumented value type, or (25-50% of runs) a trivially constructible one whose empty answer must be the value-initialised T(); a vector-clock happens-before model reports a payload access that those orders leave unordered against a conflicting access. distinct = hash of the executed "
                 "(thread, site) sequence combined with the recorded history; non-trivial = a concurrent run with at least one "
                 "pre-emption inside an operation, or a sequential run with >=2 operations"),
        "distinct_measure": "hash of the executed (thread,site) sequence + operation results",
        "real_vs_stub": {
            "real": ["include/SQuIDS/detail/Cache.h compiled unmodified from the working tree in both configurations", "std::thread/pthread threads"],
            "simulated": ["std::atomic<T>, atomic_flag, fences and every member/free-function spelling of their operations (S4: interleaving-level shim with yield points; the memory orders given by the code feed a vector-clock happens-before model over the payload)",
                          "the choice of which thread runs (S3 baton scheduler)"],
        },
        "assumptions": ["only sequentially consistent interleavings at atomic-operation granularity are explored (no weak-memory or compiler reordering)",
                        "a spurious compare_exchange_weak failure leaves 'expected' equal to the current value"],
        "batches": {
            "quick": [{"engine": "cachesim", "config": "plain", "runs": 12000000, "deadline": 70}, {"engine": "cachesim", "config": "asan", "runs": 20000, "base": 12000000}],
            "thorough": [{"engine": "cachesim", "config": "plain", "runs": 400000000, "deadline": 1500},
                         {"engine": "cachesim", "config": "asan", "runs": 300000, "deadline": 600, "base": 400000000}],
        },
    },
}


VEC_REAL_STUB = {
    "real": ["src/SUNalg.cpp, src/MatrixExp.cpp, src/const.cpp, src/SQuIDS.cpp and every header under include/SQuIDS, compiled from the working tree",
             "GSL 2.7.1 (static), libstdc++, std::thread, thread-local storage, AddressSanitizer/UBSan runtime in the asan builds"],
    "simulated": ["operator new/new[]/delete/delete[] (S1 simulated heap: address residue mod 32, reuse policy, fill pattern, std::bad_alloc injection, ledger)",
                  "user buffers (guarded blocks of the simulated heap)", "the program itself: a seeded plan of public operations (workload)"],
}
VEC_ASSUME = ["plans stay inside the documented preconditions listed in DESIGN.md section 4.1 except for the argument errors that must be rejected",
              "GSL's own malloc is not failed or tracked in this engine", "single simulated thread per run (fresh thread, hence fresh thread-local cache, per execution)",
              "values of non-element-wise operations are taken from the library's own unfused evaluation on copies (an error in a generated kernel is a C02/C03 matter, not judged here)"]

def vec_rule(extra):
    return ("plans are generated from (VERIF_SEED, run index): 1-40 operations (70% <=12) over a pool of 8 SU_vector slots and 4 user buffers in the simulated heap; "
            "constructors/factories (valid and invalid arguments), copy/move construction and assignment, self assignment, SetBackingStore, element writes, compound "
            "assignment, the statement forms t (=|+=|-=) expr and SU_vector t(expr) over 12 expression kinds with lvalue / std::move / temporary operands, alias patterns and "
            "true guarantee flags, queries, clear_mem_cache and bursts of >=33 vectors; allocator knobs (address reuse none/LIFO/FIFO/random, residue 0/16 mod 32, fill "
            "pattern) are drawn per run. " + extra + " distinct = hash of (operation kinds in order, storage kinds and dimensions of operands, value categories, alias "
            "pattern, guarantee flags); non-trivial = the run contains a resize, a storage theft, a cache-full release, an exception or a fired fault")

def vec_prop(extra, quick, thorough, level="exploration"):
    return {"level": level, "rule": vec_rule(extra), "distinct_measure": "hash of the abstract operation sequence (kinds, storage kinds, dimensions, categories, alias pattern, flags)",
            "real_vs_stub": VEC_REAL_STUB, "assumptions": VEC_ASSUME, "batches": {"quick": quick, "thorough": thorough}}

PROPS["C08"] = vec_prop("Profile biased to copies, moves, consuming expressions and follow-ups on moved-from vectors.",
    [{"engine": "vecsim", "config": "asan", "runs": 100000, "deadline": 120}, {"engine": "vecsim", "config": "plain", "runs": 200000, "base": 100000, "deadline": 60}],
    [{"engine": "vecsim", "config": "asan", "runs": 1500000, "deadline": 900}, {"engine": "vecsim", "config": "plain", "runs": 8000000, "base": 1500000, "deadline": 600}])
PROPS["C09"] = vec_prop("The first 22680 run indices enumerate {=,+=,-=,construct} x 21 expression forms x 6 target kinds x 5 alias patterns x 9 operand category pairs "
                        "(dimension and flag set rotate with the index); later indices embed statements in random histories.",
    [{"engine": "vecsim", "config": "asan", "runs": 50000, "deadline": 70}, {"engine": "vecsim", "config": "asan-avx", "runs": 30000, "deadline": 50}],
    [{"engine": "vecsim", "config": "asan", "runs": 1500000, "deadline": 900}, {"engine": "vecsim", "config": "asan-avx", "runs": 1000000, "deadline": 600},
     {"engine": "vecsim", "config": "plain", "runs": 4000000, "base": 1500000, "deadline": 400}])
PROPS["C14"] = vec_prop("The first run indices enumerate the bounded table of argument faults (20 ordered dimension pairs x 17 binary entry points (incl. rotation by a non-square matrix, weighted rotation by an operator of another dimension, evolution of an expression by a mismatched operator; expression entry points with every "
                        "lvalue/std::move operand combination) x 2 storage kinds, and the constructor/factory window with every index up to d*d+2); later indices place argument faults inside random histories (40% of operations).",
    [{"engine": "vecsim", "config": "asan", "runs": 120000, "deadline": 120}],
    [{"engine": "vecsim", "config": "asan", "runs": 1500000, "deadline": 1200}, {"engine": "vecsim", "config": "asan-avx", "runs": 300000, "deadline": 400}],
    level="fault_enumeration")
PROPS["C15"] = vec_prop("Profile mixes everything, including throwing operations, queries through the GSL-backed matrix functions, bursts and cache clearing; verdict = "
                        "ledger at quiescence + sanitizer.",
    [{"engine": "vecsim", "config": "asan", "runs": 50000, "deadline": 70}, {"engine": "vecsim", "config": "asan-avx", "runs": 30000, "deadline": 40}],
    [{"engine": "vecsim", "config": "asan", "runs": 2000000, "deadline": 1000}, {"engine": "vecsim", "config": "asan-avx", "runs": 1000000, "deadline": 600}])
PROPS["C16"] = vec_prop("Every history (2-12 operations) is first run fault free to count the allocations of each operation; then it is re-run once for every (operation, k) "
                        "with exactly that allocation throwing std::bad_alloc (evaluations counts these executions).",
    [{"engine": "vecsim", "config": "asan", "runs": 30000, "deadline": 120}],
    [{"engine": "vecsim", "config": "asan", "runs": 200000, "deadline": 1500}],
    level="fault_enumeration")


SOL_REAL_STUB = {
    "real": ["src/SQuIDS.cpp, src/SUNalg.cpp and all headers, compiled from the working tree",
             "GSL 2.7.1 ODE driver, controller, evolve loop and the six real steppers rk2 rk4 rkf45 rkck rk8pd msadams (wrapped, not replaced)",
             "std::thread, thread-local storage, AddressSanitizer/UBSan runtime in the asan build"],
    "simulated": ["the physics callbacks H0/HI/GammaRho/InteractionsRho/GammaScalar/InteractionsScalar/PreDerive (S5: seeded problems with closed-form solutions; every call logged)",
                  "the gsl_odeiv2_step_type handed to Set_GSL_step (S6: wrapper that routes every right-hand-side evaluation through a checking proxy; or simstep, an explicit "
                  "Runge-Kutta interpreter over 6 tableaux with 4 buffer-management modes)",
                  "step rejections and retryable apply failures (injected, bounded)",
                  "operator new/delete (S1) and malloc/calloc/realloc/free of GSL (S2, link-time --wrap) with seeded address reuse, so that consecutive ODE drivers receive recycled addresses"],
}
SOL_ASSUME = ["H0 is diagonal (documented precondition of the expectation-value formula)", "gsl_set_error_handler_off() is installed (the default GSL handler aborts before SQuIDS can look at a status)",
              "stepper and tolerances change only between Evolve calls (term switches also from inside the PreDerive callback)", "callbacks never throw", "closed-form comparison only when the predicted tolerance is <= 1e-3"]
SOL_RULE = ("plans are generated from (VERIF_SEED, run index): nx 1-9, nsun 2-6, nrhos 1-3, nscalars 0-3, all 32 switch masks, grid linear/log/user; steppers rk2 rk4 rkf45 rkck rk8pd "
            "(adaptive and fixed), msadams (adaptive), simstep (6 tableaux x 4 buffer modes x dydt_in on/off); operations evolve(dt>=0), switch toggle, stepper change, move "
            "construction, move assignment (into a fresh or a used solver; old object destroyed, or re-initialised, written, read back and advanced), step-size limits, Set_AnyNumerics, "
            "re-initialisation to another configuration or to the same layout at another initial time, an Evolve that ends in the stepper's hard error, expectation "
            "queries (8 overloads, x inside / at nodes / below / above the grid / a few units in the last place outside), a second solver of another or the same dimension on the thread, "
            "a term switch flipped by the PreDerive callback in mid-Evolve, the clock and (C05) an expectation value read from inside PreDerive, single stepper settings changed between Evolve calls, a solver moved onto itself, "
            "rejected calls (bad grids, ini() with an unsupported dimension followed by use of the grid, operators of another dimension handed to all six expectation overloads). %s distinct = hash of "
            "(configuration, switch masks, stepper and mode per segment, number of distinct input buffers the right-hand side saw, operation kinds); non-trivial = at least one "
            "numerical Evolve with >=2 right-hand-side evaluations on >=2 different input buffers, or a move")

def sol_prop(extra, quick, thorough):
    return {"level": "exploration", "rule": SOL_RULE % extra, "distinct_measure": "hash of configuration + per-segment stepper/mode/switches/buffer-count + operation kinds",
            "real_vs_stub": SOL_REAL_STUB, "assumptions": SOL_ASSUME, "batches": {"quick": quick, "thorough": thorough}}

PROPS["C04"] = sol_prop("Profile: 1-3 Evolve calls per run; every right-hand-side evaluation is compared with the dense documented equation at the stepper's (buffer, time) and "
                        "the final state with the closed form.",
    [{"engine": "solversim", "config": "asan", "runs": 8000, "deadline": 150}],
    [{"engine": "solversim", "config": "asan", "runs": 100000, "deadline": 1500}, {"engine": "solversim", "config": "plain", "runs": 400000, "base": 100000, "deadline": 900}])
PROPS["C05"] = sol_prop("Profile: histories of queries interleaved with Evolve, re-initialisation, moves and a second solver.",
    [{"engine": "solversim", "config": "asan", "runs": 16000, "deadline": 150}],
    [{"engine": "solversim", "config": "asan", "runs": 300000, "deadline": 1500}, {"engine": "solversim", "config": "plain", "runs": 1000000, "base": 300000, "deadline": 600}])
PROPS["C10"] = sol_prop("Profile: up to 8 segments over the full operation alphabet.",
    [{"engine": "solversim", "config": "asan", "runs": 8000, "deadline": 150}],
    [{"engine": "solversim", "config": "asan", "runs": 100000, "deadline": 1500}, {"engine": "solversim", "config": "plain", "runs": 400000, "base": 100000, "deadline": 900}])
PROPS["C15"]["batches"]["quick"].append({"engine": "solversim", "config": "asan", "runs": 3000, "deadline": 90, "prop": "C15"})
PROPS["C15"]["batches"]["thorough"].append({"engine": "solversim", "config": "asan", "runs": 100000, "deadline": 900, "prop": "C15"})
PROPS["C15"]["batches"]["thorough"].append({"engine": "vecsim", "config": "ubsan", "runs": 2000000, "base": 3000000, "deadline": 600})   # one batch under the full UBSan check set
PROPS["C15"]["real_vs_stub"] = {"real": VEC_REAL_STUB["real"] + SOL_REAL_STUB["real"], "simulated": VEC_REAL_STUB["simulated"] + SOL_REAL_STUB["simulated"]}


PROPS["C07"] = {
    "level": "exploration",
    "rule": ("plans are generated from (VERIF_SEED, run index): a history of 1-12 calls on one simulated thread, each matrix_exponential(A) (75%) or a.UTransform(V,i*s) (25%), "
             "n = 2..6, matrix class in {anti-Hermitian, negative semi-definite Hermitian, normal, general dense, diagonal, nilpotent, nearly diagonal, indefinite Hermitian, i*Laplacian (zero row sums), general zero-row-sum}, "
             "1-norm placed at 0.5/0.9/0.99/1.01/1.1/2 times each Pade threshold (55%) or log-uniform in 1e-6..1e3 (capped at 50 for non-normal classes); the estimator's random "
             "bits come from the plan (uniform, or runs of identical bits of length <=64); allocator reuse policy and fill pattern per run. Oracles: error against exp(A) in "
             "__float128 within 2e3*n*u*(1+|A|_F)*exp(mu_2(A)); bit-identical result of the same call with the same bits on a fresh thread; UTransform against the dense formula, "
             "norm preservation and s -> -s inversion; at most 1e4 random bits per call. distinct = hash of the sequence of (kind, n, class, norm band, previous n); "
             "non-trivial = at least one non-diagonal input"),
    "distinct_measure": "hash of the call sequence (kind, size, class, norm band relative to the Pade thresholds, previous size)",
    "real_vs_stub": {"real": ["src/MatrixExp.cpp, src/SUNalg.cpp and headers from the working tree", "GSL 2.7.1 BLAS/LU/eigen (static)", "std::thread and thread-local scratch/RNG holders"],
                     "simulated": ["gsl_rng_uniform_int as called by the 1-norm estimator (S7, link-time --wrap)", "operator new/delete and malloc/free of GSL (S1,S2: reuse policy, stale-content fill)",
                                   "the call history (seeded workload)"]},
    "assumptions": ["inputs whose exponential overflows are not generated", "reference exp(A): scaling-and-squaring Taylor series in __float128 (libgcc soft float), trusted",
                    "mu_2 is computed with gsl_eigen_herm on the Hermitian part (trusted)", "GSL error handler off"],
    "batches": {"quick": [{"engine": "expsim", "config": "asan", "runs": 50000, "deadline": 150}],
                "thorough": [{"engine": "expsim", "config": "asan", "runs": 400000, "deadline": 1200}, {"engine": "expsim", "config": "plain", "runs": 2000000, "base": 400000, "deadline": 900}]},
}


PROPS["C18"] = {
    "level": "exploration",
    "rule": ("plans are generated from (VERIF_SEED, run index): 2-4 simulated threads, each a program of <=12 operations over {vector algebra with resizes and consuming "
             "expressions, bursts of 34 vectors, scratch-using matrix functions (UTransform, UDaggerTransform, Rotate(matrix), GetEigenSystem, RotateToB1), matrix_exponential, "
             "UTransform(v,i*s), send / receive of heap vectors over a channel (a block allocated on one thread is released on another), five kinds of const queries on one "
             "shared solver}, then thread exit; scheduler policy uniform / PCT(d<=3) / <=3 pre-emptions; yield points at operation boundaries, every allocation and release "
             "(S1,S2), the H0 callback (S5), every bulk GSL call (S9) and channel operations. Each plan is executed under the non-pre-emptive reference schedule and under the "
             "seeded schedule; per-operation result hashes must be identical, ThreadSanitizer (tsan build; the baton is invisible to it) must stay silent, and after all threads "
             "ended no library block may remain. distinct = hash of the executed (thread, site) sequence; non-trivial = at least one pre-emption inside an operation"),
    "distinct_measure": "hash of the executed (thread,site) sequence",
    "real_vs_stub": {"real": ["all four library sources and headers from the working tree", "real pthreads with real thread-local storage", "GSL 2.7.1 (static)", "ThreadSanitizer / AddressSanitizer runtimes"],
                     "simulated": ["which thread runs at every yield point (S3 futex baton scheduler, not visible to TSan)", "operator new/delete and malloc/free of GSL (S1,S2) as yield points with a ledger",
                                   "the GSL call boundary (S9: link-time wrappers that yield and annotate argument blocks for TSan)", "estimator bits per operation (S7)",
                                   "the shared solver's H0 callback (S5, a yield point)"]},
    "assumptions": ["races inside uninstrumented libgsl on its own globals (e.g. gsl_rng_env_setup) are not visible", "only sequentially consistent, serialised executions are explored",
                    "hand-over of a vector between threads is synchronised by the user (a mutex-protected channel), as any real program must"],
    "batches": {"quick": [{"engine": "threadsim", "config": "tsan", "runs": 20000, "deadline": 120}, {"engine": "threadsim", "config": "asan", "runs": 10000, "deadline": 90}],
                "thorough": [{"engine": "threadsim", "config": "tsan", "runs": 1000000, "deadline": 1200}, {"engine": "threadsim", "config": "asan", "runs": 300000, "deadline": 900},
                             {"engine": "threadsim", "config": "plain", "runs": 1000000, "base": 1000000, "deadline": 600}]},
}
