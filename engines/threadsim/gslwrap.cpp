// S9: the GSL call boundary. libgsl is not instrumented, so ThreadSanitizer never sees what it does to the library's
// thread-local scratch matrices. Each wrapper of a bulk routine yields to the scheduler (pre-emption between filling and
// using a scratch matrix) and tells TSan which argument blocks the call reads and writes, then calls the real function.
#include "../../sim/sched.h"
#include <gsl/gsl_matrix.h>
#include <gsl/gsl_vector.h>
#include <gsl/gsl_blas.h>
#include <gsl/gsl_linalg.h>
#include <gsl/gsl_eigen.h>
#include <gsl/gsl_permutation.h>

extern "C"{
void __tsan_read_range(void* addr,unsigned long size) __attribute__((weak));
void __tsan_write_range(void* addr,unsigned long size) __attribute__((weak));
}
namespace{
enum { SITE_GSL=30 };
inline void rd(const void* p,size_t n){ if(__tsan_read_range && p && n) __tsan_read_range(const_cast<void*>(p),n); }
inline void wr(void* p,size_t n){ if(__tsan_write_range && p && n) __tsan_write_range(p,n); }
inline void rdm(const gsl_matrix_complex* m){ if(m){ rd(m,sizeof *m); for(size_t i=0;i<m->size1;i++) rd(m->data+2*i*m->tda,2*m->size2*sizeof(double)); } }
inline void wrm(gsl_matrix_complex* m){ if(m){ rd(m,sizeof *m); for(size_t i=0;i<m->size1;i++) wr(m->data+2*i*m->tda,2*m->size2*sizeof(double)); } }
inline void rdv(const gsl_vector_complex* v){ if(v){ for(size_t i=0;i<v->size;i++) rd(v->data+2*i*v->stride,2*sizeof(double)); } }
inline void wrv(gsl_vector_complex* v){ if(v){ for(size_t i=0;i<v->size;i++) wr(v->data+2*i*v->stride,2*sizeof(double)); } }
}

extern "C"{
int __real_gsl_blas_zgemm(CBLAS_TRANSPOSE_t,CBLAS_TRANSPOSE_t,const gsl_complex,const gsl_matrix_complex*,const gsl_matrix_complex*,const gsl_complex,gsl_matrix_complex*);
int __wrap_gsl_blas_zgemm(CBLAS_TRANSPOSE_t ta,CBLAS_TRANSPOSE_t tb,const gsl_complex alpha,const gsl_matrix_complex* A,const gsl_matrix_complex* B,const gsl_complex beta,gsl_matrix_complex* C){
  verif::sched_yield(SITE_GSL); rdm(A); rdm(B); wrm(C);
  int r=__real_gsl_blas_zgemm(ta,tb,alpha,A,B,beta,C);
  verif::sched_yield(SITE_GSL+1); return r;
}
int __real_gsl_matrix_complex_memcpy(gsl_matrix_complex*,const gsl_matrix_complex*);
int __wrap_gsl_matrix_complex_memcpy(gsl_matrix_complex* d,const gsl_matrix_complex* s){
  verif::sched_yield(SITE_GSL+2); rdm(s); wrm(d);
  int r=__real_gsl_matrix_complex_memcpy(d,s);
  verif::sched_yield(SITE_GSL+3); return r;
}
int __real_gsl_matrix_complex_scale(gsl_matrix_complex*,const gsl_complex);
int __wrap_gsl_matrix_complex_scale(gsl_matrix_complex* a,const gsl_complex x){
  verif::sched_yield(SITE_GSL+4); wrm(a);
  return __real_gsl_matrix_complex_scale(a,x);
}
void __real_gsl_matrix_complex_set_all(gsl_matrix_complex*,gsl_complex);
void __wrap_gsl_matrix_complex_set_all(gsl_matrix_complex* m,gsl_complex x){ wrm(m); __real_gsl_matrix_complex_set_all(m,x); }
void __real_gsl_matrix_complex_set_identity(gsl_matrix_complex*);
void __wrap_gsl_matrix_complex_set_identity(gsl_matrix_complex* m){ verif::sched_yield(SITE_GSL+5); wrm(m); __real_gsl_matrix_complex_set_identity(m); }
int __real_gsl_linalg_complex_LU_decomp(gsl_matrix_complex*,gsl_permutation*,int*);
int __wrap_gsl_linalg_complex_LU_decomp(gsl_matrix_complex* A,gsl_permutation* p,int* s){
  verif::sched_yield(SITE_GSL+6); wrm(A); if(p) wr(p->data,p->size*sizeof(size_t));
  int r=__real_gsl_linalg_complex_LU_decomp(A,p,s);
  verif::sched_yield(SITE_GSL+7); return r;
}
int __real_gsl_linalg_complex_LU_solve(const gsl_matrix_complex*,const gsl_permutation*,const gsl_vector_complex*,gsl_vector_complex*);
int __wrap_gsl_linalg_complex_LU_solve(const gsl_matrix_complex* LU,const gsl_permutation* p,const gsl_vector_complex* b,gsl_vector_complex* x){
  rdm(LU); if(p) rd(p->data,p->size*sizeof(size_t)); rdv(b); wrv(x);
  return __real_gsl_linalg_complex_LU_solve(LU,p,b,x);
}
int __real_gsl_eigen_hermv(gsl_matrix_complex*,gsl_vector*,gsl_matrix_complex*,gsl_eigen_hermv_workspace*);
int __wrap_gsl_eigen_hermv(gsl_matrix_complex* A,gsl_vector* ev,gsl_matrix_complex* evec,gsl_eigen_hermv_workspace* w){
  verif::sched_yield(SITE_GSL+8); wrm(A); wrm(evec);
  if(ev) wr(ev->data,((ev->size-1)*ev->stride+1)*sizeof(double));
  // the workspace is scratch the routine writes all over: two threads handing in the same one are racing
  if(w){ rd(w,sizeof *w); size_t n=w->size; wr(w->d,n*sizeof(double)); wr(w->sd,n*sizeof(double)); wr(w->tau,2*n*sizeof(double)); wr(w->gc,n*sizeof(double)); wr(w->gs,n*sizeof(double)); }
  int r=__real_gsl_eigen_hermv(A,ev,evec,w);
  verif::sched_yield(SITE_GSL+9); return r;
}
// element accessors: annotate, do not yield (hot)
gsl_complex __real_gsl_matrix_complex_get(const gsl_matrix_complex*,const size_t,const size_t);
gsl_complex __wrap_gsl_matrix_complex_get(const gsl_matrix_complex* m,const size_t i,const size_t j){
  rd(m,sizeof *m); rd(m->data+2*(i*m->tda+j),2*sizeof(double));
  return __real_gsl_matrix_complex_get(m,i,j);
}
void __real_gsl_matrix_complex_set(gsl_matrix_complex*,const size_t,const size_t,const gsl_complex);
void __wrap_gsl_matrix_complex_set(gsl_matrix_complex* m,const size_t i,const size_t j,const gsl_complex x){
  rd(m,sizeof *m); wr(m->data+2*(i*m->tda+j),2*sizeof(double));
  __real_gsl_matrix_complex_set(m,i,j,x);
}
}
