// threadsim: 2-4 real threads under the seeded baton scheduler (S3), each running a program of vector algebra, scratch-using
// matrix functions, matrix exponentials, cross-thread hand-over of vectors and const queries on one shared solver. Serves C18.
#include "../../sim/engine_main.h"
#include "../../sim/sched.h"
#include "../../sim/simalloc.h"
#include "../../sim/dense.h"
#include <SQuIDS/SQuIDS.h>
#include <SQuIDS/detail/MatrixExp.h>
#include <gsl/gsl_rng.h>
#include <gsl/gsl_errno.h>
#include <mutex>
#include <map>
#include <dlfcn.h>
#include <cxxabi.h>
#include <cmath>
#include <cstring>

using namespace verif;

// ---- TSan report capture (in-process)
extern "C"{
int __tsan_get_report_data(void* report,const char** description,int* count,int* stack_count,int* mop_count,int* loc_count,int* mutex_count,int* thread_count,int* unique_tid_count,void** sleep_trace,unsigned long trace_size) __attribute__((weak));
int __tsan_get_report_mop(void* report,unsigned long idx,int* tid,void** addr,int* size,int* write,int* atomic,void** trace,unsigned long trace_size) __attribute__((weak));
}
namespace{
struct RaceRec{ char desc[48]; char f0[160]; char f1[160]; };
RaceRec g_races[16]; int g_nraces=0;
void frame_name(void** trace,int n,char* out,size_t cap){
  // runs inside the sanitizer's report path: no allocation here (so no demangling); mangled names are good enough as a signature
  out[0]=0;
  for(int i=0;i<n;i++){
    if(!trace[i]) break;
    Dl_info info; if(!dladdr(trace[i],&info)||!info.dli_sname) continue;
    const char* nm=info.dli_sname;
    if(strstr(nm,"squids")||strstr(nm,"__wrap_gsl")){ snprintf(out,cap,"%s",nm); return; }
  }
}
}
extern "C" void __tsan_on_report(void* report){
  if(!__tsan_get_report_data||!__tsan_get_report_mop) return;
  const char* desc=0; int count=0,sc=0,mc=0,lc=0,mxc=0,tc=0,utc=0; void* sleep[4];
  __tsan_get_report_data(report,&desc,&count,&sc,&mc,&lc,&mxc,&tc,&utc,sleep,4);
  int k=__atomic_fetch_add(&g_nraces,1,__ATOMIC_SEQ_CST);
  if(k>=16) return;
  RaceRec& r=g_races[k]; snprintf(r.desc,sizeof r.desc,"%s",desc?desc:"?"); r.f0[0]=r.f1[0]=0;
  for(int m=0;m<mc&&m<2;m++){
    int tid,size,write,atomic; void* addr; void* trace[24]; memset(trace,0,sizeof trace);
    __tsan_get_report_mop(report,(unsigned long)m,&tid,&addr,&size,&write,&atomic,trace,24);
    frame_name(trace,24,m==0?r.f0:r.f1,sizeof r.f0);
  }
}

// ---- S7: per-operation estimator bits (results do not depend on which thread drew how many bits before)
namespace{ __thread Rng* tl_bits=0; }
extern "C"{
unsigned long __real_gsl_rng_uniform_int(const gsl_rng* r,unsigned long n);
unsigned long __wrap_gsl_rng_uniform_int(const gsl_rng* r,unsigned long n){ if(tl_bits&&n==2) return (unsigned long)tl_bits->below(2); return __real_gsl_rng_uniform_int(r,n); }
}

namespace{

enum { SITE_OPBEGIN=1, SITE_OPEND=2, SITE_H0=3, SITE_SEND=4, SITE_RECV=5, SITE_RECV_WAIT=6 };

template<class F> int lib_call(F f,std::string* what){
  int r=0; alloc_scope(1);
  try{ f(); }catch(std::exception& e){ alloc_scope(0); r=1; if(what) *what=e.what(); alloc_scope(1); }catch(...){ alloc_scope(0); r=1; if(what) *what="unknown"; alloc_scope(1); }
  alloc_scope(0); return r;
}

// the shared, no-longer-evolving solver: H0 is a pre-emption point in the middle of every query
struct SharedSolver: public squids::SQuIDS{
  double w[6];
  squids::SU_vector H0(double x,unsigned irho) const{
    sched_yield(SITE_H0);
    squids::SU_vector h(nsun);
    Mat m(nsun); for(unsigned k=0;k<nsun;k++) m.m[k][k]=w[k]*(1+0.3*x)*(1+irho);
    std::vector<double> c=to_components(m); for(unsigned k=0;k<nsun*nsun;k++) h[k]=c[k];
    return h;
  }
  void set_state(uint64_t seed){
    Rng r(seed);
    for(unsigned ix=0;ix<nx;ix++) for(unsigned ir=0;ir<nrhos;ir++) for(unsigned k=0;k<nsun*nsun;k++) state[ix].rho[ir][k]=r.uniform(-1,1);
    for(unsigned k=0;k<6;k++) w[k]=r.uniform(-2,2);
  }
};

struct Channel{ std::mutex m; std::map<int,squids::SU_vector*> msgs; };

struct OpResult{ uint64_t hash; int rc; };
struct ThreadProg{ int tid; const Json* ops; std::vector<OpResult> res; Channel* chan; SharedSolver* solver; unsigned sdim; bool aborted; bool user_tl; const squids::SU_vector* shared_op; };

// a thread-local vector of the *user's*: constructed (empty) before the thread's first contact with the library, so it is destroyed after the
// library's own thread-local objects, and whatever block it holds by then is released after the thread's cache has been drained
static thread_local squids::SU_vector tl_user;
__attribute__((noinline)) static squids::SU_vector* touch_tl_user(){ squids::SU_vector* p=&tl_user; asm volatile(""::"r"(p):"memory"); return p; }

uint64_t hash_doubles(const double* p,size_t n,uint64_t h=1469598103934665603ULL){ return fnv1a(p,n*sizeof(double),h); }

gsl_matrix_complex* seeded_unitary(unsigned d,uint64_t seed){
  gsl_matrix_complex* U=gsl_matrix_complex_calloc(d,d); Rng r(seed);
  Mat W=Mat::identity(d); for(unsigned q=0;q<d;q++){ unsigned j=1+(unsigned)r.below(d-1),i=(unsigned)r.below(j); W=W*plane_rotation(d,i,j,r.uniform(-1.5,1.5),r.uniform(-1,1)); }
  for(unsigned i=0;i<d;i++) for(unsigned j=0;j<d;j++) gsl_matrix_complex_set(U,i,j,gsl_complex_rect(W.m[i][j].real(),W.m[i][j].imag()));
  return U;
}

void run_program(void* arg,int){
  ThreadProg& P=*(ThreadProg*)arg;
  const Json& ops=*P.ops;
  std::vector<squids::SU_vector*> held;
  squids::SU_vector* mine=P.user_tl?touch_tl_user():0;
  for(size_t i=0;i<ops.size()&&i<24;i++){
    const Json& o=ops[i]; std::string op=o["op"].as_str();
    sched_yield(SITE_OPBEGIN); sched_set_in_op(1);
    alloc_tag(P.tid*100+(int)i);
    OpResult R; R.hash=0; R.rc=0;
    unsigned d=(unsigned)std::max(2LL,std::min(6LL,o["d"].as_int(3)));
    uint64_t vs=(uint64_t)o["vs"].as_int(1); Rng vr(vs);
    Rng bits(mix(vs,0xb175)); tl_bits=&bits;
    if(op=="vec"){
      R.rc=lib_call([&]{
        squids::SU_vector a(d),b(d),c;
        for(unsigned k=0;k<d*d;k++){ a[k]=vr.uniform(-1,1); b[k]=vr.uniform(-1,1); }
        c=squids::iCommutator(a,b)+a*0.5;
        c+=squids::ACommutator(a,b);
        squids::SU_vector e=std::move(c)-b;          // consumes c's storage
        c=squids::SU_vector(d==6?2:d+1);             // resize: release and acquire through the cache
        c=e.Evolve(a,0.3);
        double dot=c*e;
        R.hash=hash_doubles(&c[0],d*d,hash_doubles(&e[0],d*d)); R.hash=hash_doubles(&dot,1,R.hash);
        if(mine) *mine=e;                            // the user's thread-local vector keeps a block until the thread ends
      },0);
    }else if(op=="factory"){
      R.rc=lib_call([&]{
        unsigned i0=(unsigned)vr.below(d),k0=(unsigned)vr.below(d*d);
        squids::SU_vector r=squids::SU_vector::Projector(d,i0)+squids::SU_vector::Generator(d,k0)*vr.uniform(-1,1);
        r+=squids::SU_vector::Identity(d)*0.5;
        r-=squids::SU_vector::PosProjector(d,i0)*0.25;
        r+=squids::SU_vector::NegProjector(d,i0)*0.125;
        squids::SU_vector re=r.Real(),im=r.Imag();
        squids::Const p; for(unsigned j=1;j<d;j++) for(unsigned i2=0;i2<j;i2++){ p.SetMixingAngle(i2,j,0.05*(i2+2*j+1)); p.SetPhase(i2,j,0.03*(j+1)); }
        auto U=p.GetTransformationMatrix(d);
        squids::SU_vector rot=r.Rotate(U.get());
        std::vector<double> comps=rot.GetComponents();
        R.hash=hash_doubles(&comps[0],comps.size(),hash_doubles(&re[0],d*d,hash_doubles(&im[0],d*d)));
      },0);
    }else if(op=="burst"){
      R.rc=lib_call([&]{ std::vector<squids::SU_vector> pool; pool.reserve(36); for(int k=0;k<34;k++) pool.emplace_back(d); pool.clear(); },0);
    }else if(op=="matfun"){
      int which=(int)(o["which"].as_int(0)%5);
      gsl_matrix_complex* U=seeded_unitary(d,vs+1);
      R.rc=lib_call([&]{
        squids::SU_vector a(d); for(unsigned k=0;k<d*d;k++) a[k]=vr.uniform(-1,1);
        squids::SU_vector r;
        switch(which){
          case 0: r=a.UTransform(U); break;
          case 1: r=a.UDaggerTransform(U); break;
          case 2: r=a.Rotate(U); break;
          case 3:{ auto es=a.GetEigenSystem(true); double ev[6]; for(unsigned k=0;k<d;k++) ev[k]=gsl_vector_get(es.first.get(),k); R.hash=hash_doubles(ev,d); r=a; break; }
          default:{ squids::Const p; for(unsigned j=1;j<d;j++) for(unsigned i2=0;i2<j;i2++) p.SetMixingAngle(i2,j,0.1*(i2+j+1)); r=a; r.RotateToB1(p); }
        }
        R.hash=hash_doubles(&r[0],d*d,R.hash?R.hash:1469598103934665603ULL);
      },0);
      gsl_matrix_complex_free(U);
    }else if(op=="exp"){
      double norm=o["norm"].as_num(1.0);
      gsl_matrix_complex* A=gsl_matrix_complex_alloc(d,d); gsl_matrix_complex* E=gsl_matrix_complex_alloc(d,d);
      for(unsigned ii=0;ii<d;ii++) for(unsigned jj=0;jj<d;jj++) gsl_matrix_complex_set(A,ii,jj,gsl_complex_rect(0,0));
      for(unsigned ii=0;ii<d;ii++){ gsl_matrix_complex_set(A,ii,ii,gsl_complex_rect(0,norm*vr.uniform(-0.3,0.3))); for(unsigned jj=ii+1;jj<d;jj++){ double re=norm*vr.uniform(-0.3,0.3),im=norm*vr.uniform(-0.3,0.3); gsl_matrix_complex_set(A,ii,jj,gsl_complex_rect(re,im)); gsl_matrix_complex_set(A,jj,ii,gsl_complex_rect(-re,im)); } }
      R.rc=lib_call([&]{ squids::math_detail::matrix_exponential(E,A); },0);
      R.hash=hash_doubles(E->data,2*d*d);
      gsl_matrix_complex_free(A); gsl_matrix_complex_free(E);
    }else if(op=="utv"){
      double s=o["norm"].as_num(1.0);
      R.rc=lib_call([&]{
        squids::SU_vector a(d),v(d); for(unsigned k=0;k<d*d;k++){ a[k]=vr.uniform(-1,1); v[k]=vr.uniform(-1,1); }
        squids::SU_vector r=a.UTransform(v,gsl_complex_rect(0.0,s));
        R.hash=hash_doubles(&r[0],d*d);
      },0);
    }else if(op=="send"){
      int msg=(int)o["msg"].as_int(0);
      squids::SU_vector* v=0;
      R.rc=lib_call([&]{ v=new squids::SU_vector(d); for(unsigned k=0;k<d*d;k++) (*v)[k]=vr.uniform(-1,1); },0);
      sched_yield(SITE_SEND);
      { std::lock_guard<std::mutex> lk(P.chan->m); P.chan->msgs[msg]=v; }
      sched_wake(msg);
      R.hash=(uint64_t)msg;
    }else if(op=="recv"){
      int msg=(int)o["msg"].as_int(0);
      squids::SU_vector* v=0;
      while(true){
        { std::lock_guard<std::mutex> lk(P.chan->m); std::map<int,squids::SU_vector*>::iterator it=P.chan->msgs.find(msg); if(it!=P.chan->msgs.end()){ v=it->second; P.chan->msgs.erase(it); } }
        if(v||sched_aborted()) break;
        sched_block(msg,SITE_RECV_WAIT);
      }
      if(!v){ P.aborted=true; R.rc=2; }
      else{
        sched_yield(SITE_RECV);
        bool keep=o["keep"].as_bool(false);
        if(o["light"].as_bool(false)){
          // the receiver only reads the vector and releases it: it never allocates that dimension itself, so the block enters a cache this thread
          // has not used for anything else
          R.rc=lib_call([&]{ R.hash=hash_doubles(&(*v)[0],v->Size()); delete v; v=0; },0);
        }else
        R.rc=lib_call([&]{
          squids::SU_vector mine(v->Dim()); mine=(*v)*2.0;       // use it with this thread's own storage
          (*v)+=mine;
          R.hash=hash_doubles(&(*v)[0],v->Size());
          if(!keep){ delete v; v=0; }                           // a block allocated on the sender is released here
        },0);
        if(v) held.push_back(v);
      }
    }else if(op=="expect"){
      int kind=(int)(o["kind"].as_int(0)%5); unsigned sd=P.sdim; unsigned irho=(unsigned)(o["irho"].as_int(0)%2); double x=1.0+o["x"].as_num(0.5); unsigned ix=(unsigned)(o["ix"].as_int(0)%3);
      double val=0;
      bool shared=o["shared_op"].as_bool(false)&&P.shared_op;     // an operator built elsewhere: the query itself may then be the thread's first contact with the library
      R.rc=lib_call([&]{
        squids::SU_vector own; if(!shared){ own=squids::SU_vector(sd); for(unsigned k=0;k<sd*sd;k++) own[k]=vr.uniform(-1,1); }
        const squids::SU_vector& opv=shared?*P.shared_op:own;
        switch(kind){
          case 0: val=P.solver->GetExpectationValue(opv,irho,ix); break;
          case 1: val=P.solver->GetExpectationValueD(opv,irho,x); break;
          case 2:{ squids::SQuIDS::expectationValueDBuffer buf(sd); val=P.solver->GetExpectationValueD(opv,irho,x,buf); break; }
          case 3:{ std::vector<bool> avr(sd*(sd-1)/2+1); val=P.solver->GetExpectationValueD(opv,irho,x,1e6,avr); break; }
          default:{ squids::SU_vector st=P.solver->GetIntermediateState(irho,x); val=st*opv; }
        }
      },0);
      R.hash=hash_doubles(&val,1);
    }
    tl_bits=0;
    P.res.push_back(R);
    sched_set_in_op(0); sched_yield(SITE_OPEND);
  }
  // vectors received and kept until now are released before the thread ends
  lib_call([&]{ for(size_t k=0;k<held.size();k++) delete held[k]; },0);
}

struct PassResult{ std::vector<std::vector<OpResult> > res; SchedResult sr; std::vector<int> decisions; int nraces; int leaked; size_t leak_bytes; int leak_tag; int ledger_err; bool aborted; };

void run_pass(const Json& plan,int policy,const std::vector<int>* replay,uint64_t sched_seed,PassResult& out){
  const Json& threads=plan["threads"];
  int nt=(int)std::min((size_t)4,threads.size());
  AllocCfg cfg; const Json& a=plan["alloc"];
  cfg.reuse=(int)a["reuse"].as_int(1); cfg.c_reuse=(int)a["c_reuse"].as_int(1); cfg.residue=(int)a["residue"].as_int(2); cfg.fill=0; cfg.seed=(uint64_t)a["seed"].as_int(1);
  cfg.passthrough=(__tsan_get_report_data!=0)?1:0;    // ThreadSanitizer build: memory from the real allocator, ledger checks are made by the asan/plain builds
  alloc_run_begin(cfg);
  Channel chan; SharedSolver* solver=0; unsigned sdim=(unsigned)std::max(2LL,std::min(6LL,plan["solver_dim"].as_int(3)));
  alloc_tag(-5);
  lib_call([&]{ solver=new SharedSolver(); solver->ini(3,sdim,2,0,0.0); solver->Set_xrange(1.0,2.0,"linear"); solver->set_state((uint64_t)plan["solver_seed"].as_int(1)); solver->Evolve(0.7); },0);
  squids::SU_vector* shared_op=0;
  lib_call([&]{ shared_op=new squids::SU_vector(sdim); Rng r((uint64_t)plan["solver_seed"].as_int(1)+17); for(unsigned k=0;k<sdim*sdim;k++) (*shared_op)[k]=r.uniform(-1,1); },0);
  std::vector<ThreadProg> progs(nt);
  for(int t=0;t<nt;t++){ progs[t].user_tl=plan["user_tl"].type==Json::Arr&&(size_t)t<plan["user_tl"].size()&&plan["user_tl"][(size_t)t].as_bool(false); progs[t].shared_op=shared_op;
    progs[t].tid=t; progs[t].ops=&threads[(size_t)t]; progs[t].chan=&chan; progs[t].solver=solver; progs[t].sdim=sdim; progs[t].aborted=false; progs[t].res.reserve(32); }
  int races_before=__atomic_load_n(&g_nraces,__ATOMIC_SEQ_CST);
  static int dummy=0;
  sched_begin(policy,sched_seed,replay?(replay->empty()?&dummy:&(*replay)[0]):0,replay?(int)replay->size():0,(int)plan["pct_depth"].as_int(2),20000);
  for(int t=0;t<nt;t++) sched_spawn(run_program,&progs[t]);
  sched_run();
  out.decisions.assign(sched_decisions(),sched_decisions()+sched_ndecisions());
  out.sr=sched_end();
  out.nraces=__atomic_load_n(&g_nraces,__ATOMIC_SEQ_CST)-races_before;
  out.aborted=false; for(int t=0;t<nt;t++){ out.res.push_back(progs[t].res); if(progs[t].aborted) out.aborted=true; }
  // undelivered messages, the shared solver and the main thread's own cache are released; what remains was lost by an exited thread
  lib_call([&]{ for(std::map<int,squids::SU_vector*>::iterator it=chan.msgs.begin();it!=chan.msgs.end();++it) delete it->second; delete solver; delete shared_op; squids::SU_vector::clear_mem_cache(); },0);
  BlockInfo bi[4]; out.leaked=alloc_live_lib_blocks(bi,4); out.leak_bytes=out.leaked?bi[0].size:0; out.leak_tag=out.leaked?bi[0].tag:0;
  AllocError errs[2]; out.ledger_err=alloc_errors(errs,2)?errs[0].kind:0;
  alloc_run_end();
}

struct ThreadEngine: Engine{
  const char* name() const{ return "threadsim"; }
  void init(){ gsl_set_error_handler_off(); }

  Json generate(uint64_t vseed,uint64_t index,const std::string& prop,const std::string&){
    uint64_t rs=run_seed(vseed,index); Rng r(stream_seed(rs,STREAM_PLAN));
    Json p=Json::object(); p["engine"]="threadsim"; p["property"]=prop.empty()?"C18":prop; p["verif_seed"]=(long long)vseed; p["run"]=(long long)index;
    Json al=Json::object(); al["reuse"]=(int)r.weighted({20,50,15,15}); al["c_reuse"]=(int)r.weighted({20,50,15,15}); al["residue"]=2; al["seed"]=(long long)(stream_seed(rs,STREAM_ALLOC)>>2); p["alloc"]=al;
    int nt=r.range(2,4); p["solver_dim"]=r.range(2,6); p["solver_seed"]=(long long)r.below(100000);
    p["policy"]=(int)r.weighted({45,30,25}); p["pct_depth"]=r.range(1,3); p["sched_seed"]=(long long)(stream_seed(rs,STREAM_SCHED)>>2);
    // a global event sequence guarantees that every receive has an earlier send by another thread (no deadlock by construction)
    std::vector<Json> progs(nt,Json::array());
    int total=r.range(nt,nt*6); int nextmsg=1; std::vector<std::pair<int,int> > pending; // (msg, sender)
    int same_dim=r.chance(0.5)?r.range(2,6):0;     // many threads using the same size makes shared scratch matrices collide
    for(int e=0;e<total;e++){
      int t=(int)r.below(nt); if(progs[t].size()>=12) continue;
      Json o=Json::object(); o["vs"]=(long long)r.below(100000000); o["d"]=same_dim?same_dim:r.range(2,6);
      int k=(int)r.weighted({18,18,12,10,12,8,18,4,12});
      if(k==5 && !pending.empty()){ // receive a pending message sent by another thread
        size_t pick=r.below(pending.size()); if(pending[pick].second==t){ k=0; } else { o["op"]="recv"; o["msg"]=pending[pick].first; o["keep"]=r.chance(0.3); o["light"]=r.chance(0.35); pending.erase(pending.begin()+pick); progs[t].push(o); continue; }
      }
      switch(k){
        case 0: o["op"]="vec"; break;
        case 1: o["op"]="matfun"; o["which"]=(int)r.below(5); break;
        case 2:{ o["op"]="exp"; static const double tn[]={0.05,0.6,2.0,3.5,4.5,7.0,12.0}; o["norm"]=r.chance(0.7)?tn[r.below(7)]*r.uniform(0.8,1.25):std::pow(10.0,r.uniform(-2,1.5)); break; }
        case 3: o["op"]="utv"; o["norm"]=r.uniform(-3,3); break;
        case 4: case 5: o["op"]="send"; o["msg"]=nextmsg; pending.push_back(std::make_pair(nextmsg,t)); nextmsg++; break;
        case 6: o["op"]="expect"; o["shared_op"]=r.chance(0.4); o["kind"]=(int)r.below(5); o["irho"]=(int)r.below(2); o["x"]=r.uniform(0,1); o["ix"]=(int)r.below(3); break;
        case 7: o["op"]="burst"; break;
        default: o["op"]="factory"; break;
      }
      progs[t].push(o);
    }
    Json th=Json::array(); Json sh=Json::array();
    for(int t=0;t<nt;t++){ th.push(progs[t]); char b[32]; snprintf(b,sizeof b,"threads/%d",t); sh.push(b); }
    sh.push("schedule");
    Json utl=Json::array(); for(int t=0;t<nt;t++) utl.push(r.chance(0.3)); p["user_tl"]=utl;
    p["threads"]=th; p["shrink"]=sh;
    return p;
  }

  Outcome execute(const Json& plan,bool verbose,Counters& ctr,std::string* text){
    Outcome out; Trace tr; tr.reset(verbose);
    if(verbose||plan["trace_ops"].as_bool(false)){ printf("O 0 threads C18\n"); fflush(stdout); }
    // reference: the non-pre-emptive schedule of the same plan
    PassResult ref; run_pass(plan,POLICY_SEQUENTIAL,0,1,ref);
    bool has_sched=plan.has("schedule")&&plan["schedule"].type==Json::Arr;
    std::vector<int> replay; if(has_sched) for(size_t i=0;i<plan["schedule"].size();i++) replay.push_back((int)plan["schedule"][i].as_int(0));
    PassResult run; run_pass(plan,(int)plan["policy"].as_int(0),has_sched?&replay:0,(uint64_t)plan["sched_seed"].as_int(1),run);
    Json sched=Json::array(); for(size_t i=0;i<run.decisions.size();i++) sched.push(run.decisions[i]);
    out.plan_patch=Json::object(); out.plan_patch["schedule"]=sched;
    auto fail=[&](const std::string& c,const std::string& s,const std::string& d){ if(out.ok){ out.fail(c,s,d); out.prop="C18"; } };
    // (1) data races reported by ThreadSanitizer during either pass
    int nr=__atomic_load_n(&g_nraces,__ATOMIC_SEQ_CST);
    static int reported=0;
    if(nr>reported){
      RaceRec& rr=g_races[reported<16?reported:15]; reported=nr;
      std::string a=rr.f0,b=rr.f1; if(b<a) std::swap(a,b);
      // the signature is deliberately coarse: TSan reports each racy pair once per process, so which pair a run reports depends on what
      // earlier runs of the same worker already reported; the pair is given in the detail
      fail("tsan:data-race","race",std::string(rr.desc)+" between "+(a.empty()?"?":a)+" and "+(b.empty()?"?":b));
    }
    // (2) sequential results
    if(ref.aborted||run.aborted||ref.sr.deadlock||run.sr.deadlock) fail("sched:deadlock","","a receive was never satisfied");
    for(size_t t=0;t<run.res.size()&&out.ok;t++){
      if(run.res[t].size()!=ref.res[t].size()){ fail("result:schedule-dependent","length","thread "+std::to_string(t)+" completed a different number of operations"); break; }
      for(size_t i=0;i<run.res[t].size();i++){
        const Json& o=plan["threads"][t][i]; std::string kind=o["op"].as_str();
        if(run.res[t][i].rc!=ref.res[t][i].rc||run.res[t][i].hash!=ref.res[t][i].hash){
          fail("result:schedule-dependent",kind,"thread "+std::to_string(t)+" operation "+std::to_string(i)+" ("+kind+") gives a different result under the pre-emptive schedule than under the sequential one"); break; }
        tr.ev("t%zu op%zu %s rc=%d %016llx",t,i,kind.c_str(),run.res[t][i].rc,(unsigned long long)run.res[t][i].hash);
        ctr.add("op_"+kind);
      }
    }
    // (3) storage given back at thread exit, (4) ledger
    if(run.leaked||ref.leaked){ const PassResult& L=run.leaked?run:ref; char b[200]; snprintf(b,sizeof b,"%d block(s) allocated by the library are still live after every thread ended and the main thread's cache was cleared; first: %zu bytes allocated in thread %d operation %d",L.leaked,L.leak_bytes,L.leak_tag/100,L.leak_tag%100); fail("ledger:leak-at-thread-exit","thread-exit",b); }
    if(run.ledger_err||ref.ledger_err) fail("ledger:error","kind"+std::to_string(run.ledger_err?run.ledger_err:ref.ledger_err),"allocator ledger error (double free / foreign free / guard) during the threaded run");
    if(run.sr.overflow) fail("liveness:step-budget","","scheduler step budget exhausted");
    ctr.add("sched_steps",run.sr.steps); ctr.add("sched_switches",run.sr.switches); ctr.add("preempt_in_op",run.sr.preempt_in_op);
    ctr.add("tsan_reports",run.nraces+ref.nraces);
    out.event_hash=tr.hash^run.sr.hash; out.shape=run.sr.hash; out.nontrivial=run.sr.preempt_in_op>0; out.sim_steps=run.sr.steps;
    if(text) *text=tr.text;
    return out;
  }
};

}

int main(int argc,char** argv){ ThreadEngine e; return engine_main(argc,argv,e); }
