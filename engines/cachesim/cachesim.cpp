// cachesim: the repo's cache<T,N> under the seeded scheduler (C19).
#include "../../sim/engine_main.h"
#include "../../sim/sched.h"
#include "cache_iface.h"
#include <vector>
#include <map>
#include <set>
#include <algorithm>

using namespace verif;

extern "C" void __asan_poison_memory_region(void const volatile*,size_t) __attribute__((weak));
extern "C" void __tsan_read_range(void*,unsigned long) __attribute__((weak));
static bool cachesim_sanitized(){ return __asan_poison_memory_region!=0 || __tsan_read_range!=0; }

namespace{

enum { SITE_OPBEGIN=1, SITE_OPEND=2 };

struct OpRec{ int kind; int v; int result; long inv; long ret; long cas; }; // kind 0 insert, 1 get
struct ThreadArg{ CacheIface* c; std::vector<OpRec> ops; };

void thread_body(void* p,int){
  ThreadArg* a=(ThreadArg*)p;
  cachesim_hb_thread_start();
  for(size_t i=0;i<a->ops.size();i++){
    OpRec& o=a->ops[i];
    sched_yield(SITE_OPBEGIN);
    sched_set_in_op(1);
    cachesim_cas_reset();
    o.inv=sched_step();
    if(o.kind==0) o.result=a->c->insert(o.v)?1:0;
    else o.result=a->c->get();
    o.ret=sched_step();
    o.cas=cachesim_cas_count();
    sched_set_in_op(0);
    sched_yield(SITE_OPEND);
  }
}

struct CacheEngine: Engine{
  const char* name() const{ return "cachesim"; }

  Json generate(uint64_t vseed,uint64_t index,const std::string& prop,const std::string& tier){
    uint64_t rs=run_seed(vseed,index);
    Rng r(stream_seed(rs,STREAM_PLAN));
    Json p=Json::object();
    p["engine"]="cachesim"; p["property"]=prop.empty()?"C19":prop; p["verif_seed"]=(long long)vseed; p["run"]=(long long)index;
    int cap=1+(int)r.weighted({25,40,20,15});
    p["capacity"]=cap;
    int mode=(int)r.weighted({70,15,15}); // concurrent shared, sequential shared, sequential tls
    p["variant"]=(mode==2)?"tls":"shared";
    int nthreads=(mode==0)?(r.chance(0.55)?3:2):1;
    int maxops=(mode==0)?5:12;
    if(tier=="thorough" && mode==0 && r.chance(0.2)) maxops=7;
    int prefill=r.chance(0.45)?cap:r.range(0,cap);      // a full cache is where pops contend
    p["prefill"]=prefill;
    p["payload"]=r.chance(mode==0?0.25:0.5)?"raw":"val";
    Json threads=Json::array();
    for(int t=0;t<nthreads;t++){
      int bias=r.range(0,2); // 0 producer, 1 consumer, 2 mixed
      int n=r.range(1,maxops);
      Json ops=Json::array();
      for(int k=0;k<n;k++){
        double pins=bias==0?0.75:(bias==1?0.25:0.5);
        Json o=Json::object();
        if(r.chance(pins)){ o["op"]="insert"; o["v"]=100*(t+1)+k+1; }
        else o["op"]="get";
        ops.push(o);
      }
      threads.push(ops);
    }
    p["threads"]=threads;
    if(mode==0){
      int pol=(int)r.weighted({50,25,25});
      p["policy"]=pol;
      p["pct_depth"]=r.range(1,5);
      p["coarse"]=r.chance(0.5)?1:0;
      p["spurious_pct"]=(int)(r.weighted({60,25,15})==0?0:(r.chance(0.6)?10:30));
    }else{
      p["policy"]=(int)POLICY_SEQUENTIAL; p["pct_depth"]=0; p["spurious_pct"]=0;
    }
    p["sched_seed"]=(long long)(stream_seed(rs,STREAM_SCHED)>>1);
    Json sh=Json::array();
    for(int t=0;t<nthreads;t++){ char b[32]; snprintf(b,sizeof b,"threads/%d",t); sh.push(b); }
    sh.push("schedule");
    p["shrink"]=sh;
    return p;
  }

  Outcome execute(const Json& plan,bool verbose,Counters& ctr,std::string* text){
    Outcome out; Trace tr; tr.reset(verbose);
    int cap=(int)plan["capacity"].as_int(2); if(cap<1) cap=1; if(cap>4) cap=4;
    bool tls=plan["variant"].as_str()=="tls";
    const Json& threads=plan["threads"];
    int nthreads=(int)threads.size(); if(nthreads>3) nthreads=3;
    if(tls && nthreads>1) nthreads=1;
    cachesim_hb_reset();
    bool raw=plan["payload"].as_str("val")=="raw";    // a trivially constructible payload (the happens-before model needs the instrumented one)
    CacheIface* c=tls?make_tls_cache(cap,raw):make_shared_cache(cap,raw);
    ctr.add(raw?"payload_raw":"payload_instrumented");
    cachesim_spurious_pct=(int)plan["spurious_pct"].as_int(0);
    cachesim_coarse=(int)plan["coarse"].as_int(0);
    int prefill=(int)plan["prefill"].as_int(0); if(prefill>cap) prefill=cap; if(prefill<0) prefill=0;
    std::vector<int> model; // bounded LIFO of the sequential prefix / single-thread runs
    std::multiset<int> inserted;
    for(int k=0;k<prefill;k++){
      bool ok=c->insert(k+1);
      tr.ev("prefill %d -> %d",k+1,(int)ok);
      if(!ok) out.fail("seq:insert-result","prefill","prefill insert "+std::to_string(k+1)+" failed below capacity");
      else { inserted.insert(k+1); model.push_back(k+1); }
    }
    std::vector<ThreadArg> args(nthreads);
    for(int t=0;t<nthreads;t++){
      args[t].c=c;
      const Json& ops=threads[(size_t)t];
      for(size_t k=0;k<ops.size()&&k<16;k++){
        OpRec o; o.kind=ops[k]["op"].as_str()=="insert"?0:1; o.v=(int)ops[k]["v"].as_int(0); o.result=-1; o.inv=o.ret=o.cas=0;
        if(o.kind==0 && o.v<=0) o.v=1000+t*100+(int)k;
        args[t].ops.push_back(o);
      }
    }
    bool has_sched=plan.has("schedule") && plan["schedule"].type==Json::Arr;
    std::vector<int> replay;
    if(has_sched) for(size_t i=0;i<plan["schedule"].size();i++) replay.push_back((int)plan["schedule"][i].as_int(0));
    int policy=(int)plan["policy"].as_int(0);
    // cooperative tasks unless a sanitizer is linked (its runtime does not follow context switches without annotations) or the thread-local variant is under test
    sched_use_fibers((!tls && !plan["threads_real"].as_bool(false) && !cachesim_sanitized())?1:0);
    sched_begin(policy,(uint64_t)plan["sched_seed"].as_int(1),has_sched?(replay.empty()?(const int*)"":&replay[0]):0,(int)replay.size(),(int)plan["pct_depth"].as_int(0),4000);
    for(int t=0;t<nthreads;t++) sched_spawn(thread_body,&args[t]);
    sched_run();
    Json sched=Json::array();
    { const int* d=sched_decisions(); int n=sched_ndecisions(); for(int i=0;i<n;i++) sched.push(d[i]); }
    SchedResult sr=sched_end();
    cachesim_hb_join_all();
    cachesim_spurious_pct=0; cachesim_coarse=0;
    out.plan_patch=Json::object(); out.plan_patch["schedule"]=sched;

    // ---- oracle over the recorded history
    std::map<int,long> insert_inv; // value -> invoke step of its successful insert
    std::map<int,int> returned;    // value -> times returned
    long total_ops=0;
    for(int t=0;t<nthreads;t++) for(size_t k=0;k<args[t].ops.size();k++){
      OpRec& o=args[t].ops[k]; total_ops++;
      tr.ev("t%d %s v=%d -> %d @%ld-%ld cas=%ld",t,o.kind==0?"insert":"get",o.v,o.result,o.inv,o.ret,o.cas);
      if(o.kind==0){ if(o.result==1){ inserted.insert(o.v); insert_inv[o.v]=o.inv; ctr.add("insert_ok"); } else ctr.add("insert_full"); }
      else { if(o.result!=0){ returned[o.result]++; ctr.add("get_hit"); } else ctr.add("get_empty"); }
    }
    for(int k=1;k<=prefill;k++) insert_inv[k]=-1;
    // values returned by get: inserted before, at most once
    for(int t=0;t<nthreads;t++) for(size_t k=0;k<args[t].ops.size();k++){
      OpRec& o=args[t].ops[k];
      if(o.kind==1 && o.result!=0){
        if(!inserted.count(o.result)) out.fail("history:not-inserted","get","get returned "+std::to_string(o.result)+" which was never successfully inserted");
        else if(insert_inv[o.result]>o.ret) out.fail("history:not-inserted","get-before-insert","get returned "+std::to_string(o.result)+" before its insert was invoked");
      }
    }
    for(std::map<int,int>::iterator it=returned.begin();it!=returned.end();++it)
      if(it->second>1) out.fail("history:returned-twice","get","value "+std::to_string(it->first)+" returned by "+std::to_string(it->second)+" fetches");
    // drain at quiescence
    std::multiset<int> drained;
    int guard=0;
    while(true){
      int v=c->get();
      if(v==0) break;
      drained.insert(v); tr.ev("drain %d",v);
      if(++guard>cap+8){ out.fail("history:drain-overrun","drain","draining returned more values than the capacity"); break; }
    }
    std::multiset<int> expect=inserted;
    for(std::map<int,int>::iterator it=returned.begin();it!=returned.end();++it)
      for(int n=0;n<it->second;n++){ std::multiset<int>::iterator f=expect.find(it->first); if(f!=expect.end()) expect.erase(f); }
    if(drained!=expect){
      std::string d="drained {"; for(std::multiset<int>::iterator it=drained.begin();it!=drained.end();++it) d+=std::to_string(*it)+" ";
      d+="} expected inserted-minus-fetched {"; for(std::multiset<int>::iterator it=expect.begin();it!=expect.end();++it) d+=std::to_string(*it)+" ";
      d+="}";
      // classify: duplicate (a value drained that was already fetched, or drained twice) versus lost
      bool dup=false;
      for(std::multiset<int>::iterator it=drained.begin();it!=drained.end();++it) if(drained.count(*it)>expect.count(*it)) dup=true;
      out.fail(dup?"history:returned-twice":"history:lost","drain",d);
    }
    // single-thread histories: exact bounded LIFO
    if(nthreads==1){
      for(size_t k=0;k<args[0].ops.size();k++){
        OpRec& o=args[0].ops[k];
        if(o.kind==0){
          bool expect_ok=(int)model.size()<cap;
          if((o.result==1)!=expect_ok) out.fail("seq:insert-result",tls?"tls":"shared","insert at occupancy "+std::to_string(model.size())+"/"+std::to_string(cap)+" returned "+std::to_string(o.result));
          if(expect_ok) model.push_back(o.v);
        }else{
          int e=model.empty()?0:model.back();
          if(o.result!=e) out.fail("seq:get-result",tls?"tls":"shared","get returned "+std::to_string(o.result)+" expected "+std::to_string(e)+" (LIFO)");
          if(!model.empty()) model.pop_back();
        }
      }
    }
    // bounded liveness: no contention, no spurious failure => one CAS per loop
    if(!tls && (nthreads==1 || policy==POLICY_SEQUENTIAL) && plan["spurious_pct"].as_int(0)==0 && !has_sched){
      for(int t=0;t<nthreads;t++) for(size_t k=0;k<args[t].ops.size();k++)
        if(args[t].ops[k].cas>8) out.fail("liveness:cas-count","uncontended","operation needed "+std::to_string(args[t].ops[k].cas)+" compare-and-swap attempts without contention (bounded liveness: 2 are needed today, 8 allowed)");
    }
    if(!tls && cachesim_hb_race()) out.fail("hb:payload-race","payload",cachesim_hb_race());
    if(sr.deadlock) out.fail("sched:deadlock","","all threads blocked");
    if(sr.overflow) out.fail("liveness:step-budget","","scheduler step budget exhausted (livelock)");
    delete c;
    ctr.add("sched_steps",sr.steps); ctr.add("sched_switches",sr.switches); ctr.add("preempt_in_op",sr.preempt_in_op);
    ctr.add(tls?"runs_tls_seq":(nthreads==1?"runs_shared_seq":"runs_shared_conc"));
    { int nc=0; for(size_t i=0;i<sched.size();i++) if(sched[i].as_int()==101) nc++; ctr.add("fault_spurious_cas_fired",nc); }
    out.event_hash=tr.hash^sr.hash;
    out.shape=sr.hash^fnv1a(plan["variant"].as_str())^(uint64_t)cap*0x9e3779b97f4a7c15ULL^tr.hash;
    out.nontrivial=(nthreads>1)?(sr.preempt_in_op>0):(total_ops>=2);
    out.sim_steps=sr.steps;
    if(text) *text=tr.text;
    return out;
  }
};

}

int main(int argc,char** argv){
  CacheEngine e;
  return engine_main(argc,argv,e);
}
