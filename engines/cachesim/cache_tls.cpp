// The thread-local configuration of the repo's cache (what gcc/clang builds ship).
#include <atomic>
#include <cstdint>
#include <cstddef>
#include "cache_iface.h"
#define SQUIDS_THREAD_LOCAL thread_local
#define squids squids_tls
#include <SQuIDS/detail/Cache.h>
#undef squids
namespace{
struct Val{ int v; Val():v(0){} Val(int x):v(x){} };
template<unsigned N> struct Impl: CacheIface{
  squids_tls::detail::cache<Val,N> c;
  bool insert(int v){ return c.insert(Val(v)); }
  int get(){ Val r=c.get(); return r.v; }
};
// a payload without a user-provided default constructor (like a raw pointer/offset pair): "nothing" is the value-initialised T()
struct Raw{ int v; };
template<unsigned N> struct ImplRaw: CacheIface{
  squids_tls::detail::cache<Raw,N> c;
  bool insert(int v){ Raw r; r.v=v; return c.insert(r); }
  int get(){ Raw r=c.get(); return r.v; }
};
}
CacheIface* make_tls_cache(int capacity,bool raw){
  if(raw) switch(capacity){
    case 1: return new ImplRaw<1>();
    case 2: return new ImplRaw<2>();
    case 3: return new ImplRaw<3>();
    default: return new ImplRaw<4>();
  }
  switch(capacity){
    case 1: return new Impl<1>();
    case 2: return new Impl<2>();
    case 3: return new Impl<3>();
    default: return new Impl<4>();
  }
}
