// The shared (non-thread-local) configuration of the repo's cache, compiled from the repo header
// with std::atomic replaced by the simulator's type (seam S4).
#include <atomic>
#include <cstdint>
#include <cstddef>
#include <cstring>
#include <cstdio>
#include "../../sim/sched.h"
#include "cache_iface.h"

int cachesim_spurious_pct=0;
int cachesim_coarse=0;   // 1: yield only before each atomic access (denser search of deep interleavings); 0: before and after
static __thread long t_cas=0;
long cachesim_cas_count(){ return t_cas; }
void cachesim_cas_reset(){ t_cas=0; }

// ---- happens-before model (vector clocks) --------------------------------------------------------------------------------------------
// The simulated atomics carry the memory orders the code gives them; the payload type records who wrote and read it. A payload access that the
// orders do not order after the conflicting access is reported: with those orders a fetch may observe a payload other than the one inserted.
namespace hb{
enum { NT=5 };       // up to four simulated threads + the harness thread (last slot)
struct VC{ uint32_t c[NT]; };
static VC clk[NT],relfence[NT],acqpend[NT];
static int race=0; static char race_msg[256];
inline int me(){ int t=verif::sched_self(); return (t<0||t>=NT-1)?NT-1:t; }
inline void join(VC& a,const VC& b){ for(int i=0;i<NT;i++) if(b.c[i]>a.c[i]) a.c[i]=b.c[i]; }
inline bool acq(std::memory_order mo){ return mo==std::memory_order_acquire||mo==std::memory_order_consume||mo==std::memory_order_acq_rel||mo==std::memory_order_seq_cst; }
inline bool rel(std::memory_order mo){ return mo==std::memory_order_release||mo==std::memory_order_acq_rel||mo==std::memory_order_seq_cst; }
inline void reset(){ std::memset(clk,0,sizeof clk); std::memset(relfence,0,sizeof relfence); std::memset(acqpend,0,sizeof acqpend); for(int t=0;t<NT;t++) clk[t].c[t]=1; race=0; race_msg[0]=0; }
inline void on_load(const VC& L,std::memory_order mo){ int t=me(); if(acq(mo)) join(clk[t],L); else join(acqpend[t],L); }
inline void on_store(VC& L,std::memory_order mo){ int t=me(); if(rel(mo)){ L=clk[t]; clk[t].c[t]++; } else L=relfence[t]; }
inline void on_rmw(VC& L,std::memory_order mo){ int t=me(); if(acq(mo)) join(clk[t],L); else join(acqpend[t],L); if(rel(mo)){ join(L,clk[t]); clk[t].c[t]++; } else join(L,relfence[t]); }
inline void fence(std::memory_order mo){ int t=me(); if(acq(mo)) join(clk[t],acqpend[t]); if(rel(mo)){ relfence[t]=clk[t]; clk[t].c[t]++; } }
inline std::memory_order fail_order(std::memory_order mo){ return mo==std::memory_order_acq_rel?std::memory_order_acquire:(mo==std::memory_order_release?std::memory_order_relaxed:mo); }
struct Shadow{
  int wt; uint32_t wc; uint32_t r[NT];
  void init(){ int t=me(); wt=t; wc=clk[t].c[t]; std::memset(r,0,sizeof r); }
  void report(const char* what,int other){ if(!race){ race=1; std::snprintf(race_msg,sizeof race_msg,"%s (thread %d against thread %d): the memory orders of the atomic operations in between do not order the two accesses",what,me(),other); } }
  void on_read(){ int t=me(); if(wt!=t && wc>clk[t].c[wt]) report("a payload is read while its write by another thread is not ordered before the read",wt); r[t]=clk[t].c[t]; }
  void on_write(){ int t=me(); if(wt!=t && wc>clk[t].c[wt]) report("a payload is overwritten while an earlier write by another thread is not ordered before it",wt);
    for(int u=0;u<NT;u++) if(u!=t && r[u]>clk[t].c[u]){ report("a payload is overwritten while a read by another thread is not ordered before the write",u); break; }
    wt=t; wc=clk[t].c[t]; std::memset(r,0,sizeof r); }
};
}
void cachesim_hb_reset(){ hb::reset(); }
void cachesim_hb_thread_start(){ int t=hb::me(); hb::join(hb::clk[t],hb::clk[hb::NT-1]); }
void cachesim_hb_join_all(){ for(int t=0;t<hb::NT-1;t++) hb::join(hb::clk[hb::NT-1],hb::clk[t]); }
const char* cachesim_hb_race(){ return hb::race?hb::race_msg:0; }

namespace verif{
enum { SITE_LOAD_PRE=10, SITE_LOAD_POST=11, SITE_STORE_PRE=12, SITE_STORE_POST=13, SITE_CAS_PRE=14, SITE_CAS_OK=15, SITE_CAS_FAIL=16, SITE_CAS_SPUR=17, SITE_RMW_PRE=18, SITE_RMW_POST=19, SITE_FLAG_WAIT=20 };
// every spelling of std::atomic<T> the header might use is served: members and free functions, with and without explicit orders
template<class T> struct sim_atomic{
  T v; hb::VC L;
  sim_atomic(){ std::memset(&v,0,sizeof v); std::memset(&L,0,sizeof L); }
  sim_atomic(T x):v(x){ std::memset(&L,0,sizeof L); }
  sim_atomic(const sim_atomic&)=delete;
  sim_atomic& operator=(const sim_atomic&)=delete;
  T load(std::memory_order mo=std::memory_order_seq_cst) const{ sched_yield(SITE_LOAD_PRE); T r=v; hb::on_load(L,mo); if(!cachesim_coarse) sched_yield(SITE_LOAD_POST); return r; }
  void store(T x,std::memory_order mo=std::memory_order_seq_cst){ sched_yield(SITE_STORE_PRE); v=x; hb::on_store(L,mo); if(!cachesim_coarse) sched_yield(SITE_STORE_POST); }
  operator T() const{ return load(); }
  T operator=(T x){ store(x); return x; }
  T exchange(T x,std::memory_order mo=std::memory_order_seq_cst){ sched_yield(SITE_RMW_PRE); T r=v; v=x; hb::on_rmw(L,mo); if(!cachesim_coarse) sched_yield(SITE_RMW_POST); return r; }
  bool cas(T& expected,T desired,std::memory_order ok_mo,std::memory_order fail_mo,bool weak){
    sched_yield(SITE_CAS_PRE);
    t_cas++;
    if(std::memcmp(&v,&expected,sizeof(T))==0){
      if(weak && cachesim_spurious_pct>0 && sched_coin(cachesim_spurious_pct)){ if(!cachesim_coarse) sched_yield(SITE_CAS_SPUR); return false; } // spurious failure: expected already equals the value
      v=desired; hb::on_rmw(L,ok_mo);
      if(!cachesim_coarse) sched_yield(SITE_CAS_OK);
      return true;
    }
    expected=v; hb::on_load(L,fail_mo);
    if(!cachesim_coarse) sched_yield(SITE_CAS_FAIL);
    return false;
  }
  bool compare_exchange_weak(T& e,T d,std::memory_order s,std::memory_order f){ return cas(e,d,s,f,true); }
  bool compare_exchange_weak(T& e,T d,std::memory_order m=std::memory_order_seq_cst){ return cas(e,d,m,hb::fail_order(m),true); }
  bool compare_exchange_strong(T& e,T d,std::memory_order s,std::memory_order f){ return cas(e,d,s,f,false); }
  bool compare_exchange_strong(T& e,T d,std::memory_order m=std::memory_order_seq_cst){ return cas(e,d,m,hb::fail_order(m),false); }
  template<class F> T rmw(F f,std::memory_order mo){ sched_yield(SITE_RMW_PRE); T r=v; v=f(r); hb::on_rmw(L,mo); if(!cachesim_coarse) sched_yield(SITE_RMW_POST); return r; }
  template<class U> T fetch_add(U x,std::memory_order mo=std::memory_order_seq_cst){ return rmw([x](T a){ return (T)(a+x); },mo); }
  template<class U> T fetch_sub(U x,std::memory_order mo=std::memory_order_seq_cst){ return rmw([x](T a){ return (T)(a-x); },mo); }
  template<class U> T fetch_and(U x,std::memory_order mo=std::memory_order_seq_cst){ return rmw([x](T a){ return (T)(a&x); },mo); }
  template<class U> T fetch_or(U x,std::memory_order mo=std::memory_order_seq_cst){ return rmw([x](T a){ return (T)(a|x); },mo); }
  template<class U> T fetch_xor(U x,std::memory_order mo=std::memory_order_seq_cst){ return rmw([x](T a){ return (T)(a^x); },mo); }
  T operator++(){ return (T)(fetch_add(1)+1); } T operator++(int){ return fetch_add(1); }
  T operator--(){ return (T)(fetch_sub(1)-1); } T operator--(int){ return fetch_sub(1); }
  template<class U> T operator+=(U x){ return (T)(fetch_add(x)+x); }
  template<class U> T operator-=(U x){ return (T)(fetch_sub(x)-x); }
  bool is_lock_free() const{ return true; }
};
template<class T> bool atomic_compare_exchange_weak(sim_atomic<T>* a,T* e,T d){ return a->compare_exchange_weak(*e,d); }
template<class T> bool atomic_compare_exchange_strong(sim_atomic<T>* a,T* e,T d){ return a->compare_exchange_strong(*e,d); }
template<class T> bool atomic_compare_exchange_weak_explicit(sim_atomic<T>* a,T* e,T d,std::memory_order s,std::memory_order f){ return a->compare_exchange_weak(*e,d,s,f); }
template<class T> bool atomic_compare_exchange_strong_explicit(sim_atomic<T>* a,T* e,T d,std::memory_order s,std::memory_order f){ return a->compare_exchange_strong(*e,d,s,f); }
template<class T> T atomic_load(const sim_atomic<T>* a){ return a->load(); }
template<class T> T atomic_load_explicit(const sim_atomic<T>* a,std::memory_order m){ return a->load(m); }
template<class T> void atomic_store(sim_atomic<T>* a,T x){ a->store(x); }
template<class T> void atomic_store_explicit(sim_atomic<T>* a,T x,std::memory_order m){ a->store(x,m); }
template<class T> T atomic_exchange(sim_atomic<T>* a,T x){ return a->exchange(x); }
template<class T> T atomic_exchange_explicit(sim_atomic<T>* a,T x,std::memory_order m){ return a->exchange(x,m); }
template<class T> void atomic_init(sim_atomic<T>* a,T x){ a->v=x; }
template<class T,class U> T atomic_fetch_add(sim_atomic<T>* a,U x){ return a->fetch_add(x); }
template<class T,class U> T atomic_fetch_add_explicit(sim_atomic<T>* a,U x,std::memory_order m){ return a->fetch_add(x,m); }
template<class T,class U> T atomic_fetch_sub(sim_atomic<T>* a,U x){ return a->fetch_sub(x); }
template<class T,class U> T atomic_fetch_sub_explicit(sim_atomic<T>* a,U x,std::memory_order m){ return a->fetch_sub(x,m); }
inline void sim_atomic_thread_fence(std::memory_order m){ hb::fence(m); }
// a test-and-set flag: waiting for it is blocking as far as the scheduler is concerned (a spinning thread must not starve the holder)
struct sim_atomic_flag{
  bool f; hb::VC L;
  sim_atomic_flag():f(false){ std::memset(&L,0,sizeof L); }
  sim_atomic_flag(bool x):f(x){ std::memset(&L,0,sizeof L); }
  int key() const{ return (int)(((uintptr_t)this>>3)&0x3fffff)|0x400000; }
  bool test_and_set(std::memory_order mo=std::memory_order_seq_cst){ sched_yield(SITE_RMW_PRE); bool r=f; f=true; hb::on_rmw(L,mo); if(r && !sched_aborted()) sched_block(key(),SITE_FLAG_WAIT); return r; }
  void clear(std::memory_order mo=std::memory_order_seq_cst){ sched_yield(SITE_STORE_PRE); f=false; hb::on_store(L,mo); sched_wake(key()); }
};
inline bool atomic_flag_test_and_set(sim_atomic_flag* a){ return a->test_and_set(); }
inline bool atomic_flag_test_and_set_explicit(sim_atomic_flag* a,std::memory_order m){ return a->test_and_set(m); }
inline void atomic_flag_clear(sim_atomic_flag* a){ a->clear(); }
inline void atomic_flag_clear_explicit(sim_atomic_flag* a,std::memory_order m){ a->clear(m); }
}
namespace std{
  template<class T> using sim_atomic=verif::sim_atomic<T>;
  using verif::sim_atomic_flag; using verif::sim_atomic_thread_fence;
  using verif::atomic_compare_exchange_weak; using verif::atomic_compare_exchange_strong;
  using verif::atomic_compare_exchange_weak_explicit; using verif::atomic_compare_exchange_strong_explicit;
  using verif::atomic_load; using verif::atomic_load_explicit; using verif::atomic_store; using verif::atomic_store_explicit;
  using verif::atomic_exchange; using verif::atomic_exchange_explicit; using verif::atomic_init;
  using verif::atomic_fetch_add; using verif::atomic_fetch_add_explicit; using verif::atomic_fetch_sub; using verif::atomic_fetch_sub_explicit;
  using verif::atomic_flag_test_and_set; using verif::atomic_flag_test_and_set_explicit; using verif::atomic_flag_clear; using verif::atomic_flag_clear_explicit;
}
#ifdef SQUIDS_THREAD_LOCAL
#error "shared variant must be compiled without SQUIDS_THREAD_LOCAL"
#endif
#undef ATOMIC_FLAG_INIT
#define ATOMIC_FLAG_INIT false
#define atomic sim_atomic
#define atomic_flag sim_atomic_flag
#define atomic_thread_fence sim_atomic_thread_fence
#define squids squids_shared
#include <SQuIDS/detail/Cache.h>
#undef atomic
#undef atomic_flag
#undef atomic_thread_fence
#undef squids

namespace{
// the payload: every copy out of and assignment into a record is an access the happens-before model sees
struct Val{
  int v; mutable hb::Shadow sh;
  Val():v(0){ sh.init(); } Val(int x):v(x){ sh.init(); }
  Val(const Val& o):v(o.v){ o.sh.on_read(); sh.init(); }
  Val& operator=(const Val& o){ o.sh.on_read(); sh.on_write(); v=o.v; return *this; }
};
template<unsigned N> struct Impl: CacheIface{
  squids_shared::detail::cache<Val,N> c;
  bool insert(int v){ return c.insert(Val(v)); }
  int get(){ Val r=c.get(); return r.v; }
};
// a payload without a user-provided default constructor (like a raw pointer/offset pair): "nothing" is the value-initialised T()
struct Raw{ int v; };
template<unsigned N> struct ImplRaw: CacheIface{
  squids_shared::detail::cache<Raw,N> c;
  bool insert(int v){ Raw r; r.v=v; return c.insert(r); }
  int get(){ Raw r=c.get(); return r.v; }
};
}
CacheIface* make_shared_cache(int capacity,bool raw){
  if(raw) switch(capacity){
    case 1: return new ImplRaw<1>();
    case 2: return new ImplRaw<2>();
    case 3: return new ImplRaw<3>();
    default: return new ImplRaw<4>();
  }
  switch(capacity){
    case 1: return new Impl<1>();
    case 2: return new Impl<2>();
    case 3: return new Impl<3>();
    default: return new Impl<4>();
  }
}
