// The shared (non-thread-local) configuration of the repo's cache, compiled from the repo header
// with std::atomic replaced by the simulator's type (seam S4).
#include <atomic>
#include <cstdint>
#include <cstddef>
#include <cstring>
#include "../../sim/sched.h"
#include "cache_iface.h"

int cachesim_spurious_pct=0;
int cachesim_coarse=0;   // 1: yield only before each atomic access (denser search of deep interleavings); 0: before and after
static __thread long t_cas=0;
long cachesim_cas_count(){ return t_cas; }
void cachesim_cas_reset(){ t_cas=0; }

namespace verif{
enum { SITE_LOAD_PRE=10, SITE_LOAD_POST=11, SITE_STORE_PRE=12, SITE_STORE_POST=13, SITE_CAS_PRE=14, SITE_CAS_OK=15, SITE_CAS_FAIL=16, SITE_CAS_SPUR=17 };
template<class T> struct sim_atomic{
  T v;
  sim_atomic(){ std::memset(&v,0,sizeof v); }
  T load(){ sched_yield(SITE_LOAD_PRE); T r=v; if(!cachesim_coarse) sched_yield(SITE_LOAD_POST); return r; }
  void store(T x){ sched_yield(SITE_STORE_PRE); v=x; if(!cachesim_coarse) sched_yield(SITE_STORE_POST); }
};
template<class T> bool atomic_compare_exchange_weak(sim_atomic<T>* a,T* expected,T desired){
  sched_yield(SITE_CAS_PRE);
  t_cas++;
  bool ok;
  if(std::memcmp(&a->v,expected,sizeof(T))==0){
    if(cachesim_spurious_pct>0 && sched_coin(cachesim_spurious_pct)){ ok=false; if(!cachesim_coarse) sched_yield(SITE_CAS_SPUR); return ok; } // spurious failure: *expected already equals the value
    a->v=desired; ok=true;
    if(!cachesim_coarse) sched_yield(SITE_CAS_OK);
  }else{
    *expected=a->v; ok=false;
    if(!cachesim_coarse) sched_yield(SITE_CAS_FAIL);
  }
  return ok;
}
}
namespace std{
  template<class T> using sim_atomic=verif::sim_atomic<T>;
  using verif::atomic_compare_exchange_weak;
}
#ifdef SQUIDS_THREAD_LOCAL
#error "shared variant must be compiled without SQUIDS_THREAD_LOCAL"
#endif
#define atomic sim_atomic
#define squids squids_shared
#include <SQuIDS/detail/Cache.h>
#undef atomic
#undef squids

namespace{
struct Val{ int v; Val():v(0){} Val(int x):v(x){} };
template<unsigned N> struct Impl: CacheIface{
  squids_shared::detail::cache<Val,N> c;
  bool insert(int v){ return c.insert(Val(v)); }
  int get(){ Val r=c.get(); return r.v; }
};
}
CacheIface* make_shared_cache(int capacity){
  switch(capacity){
    case 1: return new Impl<1>();
    case 2: return new Impl<2>();
    case 3: return new Impl<3>();
    default: return new Impl<4>();
  }
}
