// Virtual interface over the repo's cache<T,N> for N=1..4 in both configurations.
#ifndef VERIF_CACHE_IFACE_H
#define VERIF_CACHE_IFACE_H
struct CacheIface{
  virtual ~CacheIface(){}
  virtual bool insert(int v)=0;   // v != 0
  virtual int get()=0;            // 0 = nothing
};
CacheIface* make_shared_cache(int capacity,bool raw_payload);  // SQUIDS_THREAD_LOCAL undefined, std::atomic -> sim_atomic
CacheIface* make_tls_cache(int capacity,bool raw_payload);     // SQUIDS_THREAD_LOCAL=thread_local (single-thread variant)
// per-thread counters of simulated atomic operations (shared variant)
long cachesim_cas_count();
void cachesim_cas_reset();
// happens-before model of the shared variant: reset before the cache is built, each simulated thread announces its start, the harness joins
// all of them after the run; a payload access the memory orders leave unordered is reported once
void cachesim_hb_reset();
void cachesim_hb_thread_start();
void cachesim_hb_join_all();
const char* cachesim_hb_race();
extern int cachesim_spurious_pct;
extern int cachesim_coarse;
#endif
