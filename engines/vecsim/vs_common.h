// vecsim: shared declarations of the core (vecsim.cpp) and the statement units (stmt.cpp, one per operation kind).
#ifndef VERIF_VS_COMMON_H
#define VERIF_VS_COMMON_H
#include <SQuIDS/SUNalg.h>
#include "../../sim/trace.h"
#include "../../sim/simalloc.h"
#include <vector>
#include <string>
#include <cstring>
#include <new>

namespace vs{

using squids::SU_vector;

enum { NSLOTS=8, NBUFS=4, BUFLEN=40 };
enum Kind{ K_EMPTY=0, K_OWNED=1, K_EXT=2 };
enum Cat{ CAT_LVALUE=0, CAT_MOVE=1, CAT_TEMP=2 };
enum How{ HOW_ASSIGN=0, HOW_INC=1, HOW_DEC=2, HOW_CTOR=3 };
enum ExprKind{ E_ADD=0, E_SUB=1, E_NEG=2, E_SMUL=3, E_MULS=4, E_ICOMM=5, E_ACOMM=6, E_EVOL=7, E_FEVOL=8, E_EPROD=9, E_EOP=10,
               E_NESTED=11, E_NKINDS=12 };
extern const char* const expr_names[E_NKINDS];

struct Slot{
  alignas(16) char mem[sizeof(SU_vector)];
  bool alive;
  Slot():alive(false){}
  SU_vector& v(){ return *reinterpret_cast<SU_vector*>(mem); }
};

// reference model of one vector (RefVec)
struct MVec{
  bool alive; int kind; unsigned dim; int buf;    // buf valid for K_EXT
  std::vector<double> c;                           // components for K_OWNED (K_EXT reads the buffer model)
  bool moved_from;                                 // consumed by a move and not yet assigned to
  MVec():alive(false),kind(K_EMPTY),dim(0),buf(-1),moved_from(false){}
};

struct Operand{ int slot; int cat; };

struct Stmt{
  int how; int expr; int target; Operand a,b; double x; int flags; int fn; int nest;
  const double* evolbuf;     // prepared evolution buffer for E_FEVOL
};

// result of a library call made through Ctx::call
enum CallResult{ CALL_OK=0, CALL_EXCEPTION=1, CALL_BADALLOC=2 };

struct Ctx{
  Slot slot[NSLOTS]; MVec mv[NSLOTS];
  double* ubuf[NBUFS]; int uoff[NBUFS]; std::vector<double> bufmodel[NBUFS];
  verif::Outcome* out; verif::Trace* tr; verif::Counters* ctr;
  int opi; std::string opkind; std::string attr;   // current operation index, kind, property a crash in it belongs to
  std::string last_what;
  bool fault_fired_in_run;
  bool trace_ops;

  Ctx():out(0),tr(0),ctr(0),opi(-1),fault_fired_in_run(false),trace_ops(false){ for(int b=0;b<NBUFS;b++){ ubuf[b]=0; uoff[b]=0; } }
  double* bufptr(int b){ return ubuf[b]+uoff[b]; }
};

// statement executors: one translation unit per expression kind (compile cost)
typedef int (*stmt_fn)(Ctx&,const Stmt&);
extern stmt_fn stmt_table[E_NKINDS];
// evaluate the expression on the given operands into a fresh temporary through the plain (unfused) path
typedef int (*ref_fn)(Ctx&,const Stmt&,const SU_vector& a,const SU_vector& b,SU_vector& result);
extern ref_fn ref_table[E_NKINDS];

// helper used by stmt units: run f inside library scope, map exceptions
template<class F> int lib_call(Ctx& c,F f){
  int r=CALL_OK;
  verif::alloc_scope(1);
  try{ f(); }
  catch(std::bad_alloc&){ verif::alloc_scope(0); r=CALL_BADALLOC; c.last_what="std::bad_alloc"; verif::alloc_scope(1); }
  catch(std::exception& e){ verif::alloc_scope(0); r=CALL_EXCEPTION; c.last_what=e.what(); verif::alloc_scope(1); }
  catch(...){ verif::alloc_scope(0); r=CALL_EXCEPTION; c.last_what="unknown exception"; verif::alloc_scope(1); }
  verif::alloc_scope(0);
  return r;
}

struct MaxAbs{ double operator()(double a,double b) const{ return (a<0?-a:a)>(b<0?-b:b)?a:b; } };
struct AMinus2B{ double operator()(double a,double b) const{ return a-2*b; } };

}
#endif
