// vecsim: histories of public SU_vector operations against the RefVec model, in the simulated heap (S1), with
// argument faults (S8) and allocation faults. Serves C08, C09, C14, C15 (vector half) and C16.
#include "../../sim/engine_main.h"
#include "vs_exec.h"
#include "vs_gen.h"
#include <thread>

using namespace verif;
using namespace vs;

namespace vs{

// ---------------------------------------------------------------------------------------------
static void op_fill(Json& ops,int t,long vs_,int vc){ Json o=Json::object(); o["op"]="fill"; o["t"]=t; o["vs"]=(long long)vs_; o["vc"]=vc; ops.push(o); }
static void op_make(Json& ops,int t,int d,bool ext,int buf){
  Json o=Json::object(); o["op"]=ext?"ext":"sized"; o["t"]=t; o["d"]=d; if(ext) o["buf"]=buf; ops.push(o);
}

static std::vector<Json>& c14_table(){
  static std::vector<Json> tab;
  if(!tab.empty()) return tab;
  static const char* bin[]={"add","sub","icomm","acomm","evol","eprod","eop"};
  for(int d1=2;d1<=6;d1++) for(int d2=2;d2<=6;d2++) if(d1!=d2) for(int variant=0;variant<2;variant++) for(int e=0;e<17;e++) for(int cat=0;cat<4;cat++){
    if(cat>0 && !(e<7)) continue;                       // operand value categories (lvalue / std::move) select different overloads of the expression entry points
    Json ops=Json::array();
    op_make(ops,0,d1,variant==1,0); op_fill(ops,0,d1*10+d2,6);
    op_make(ops,1,d2,variant==1,1); op_fill(ops,1,d2*10+d1,1);
    op_make(ops,2,d1,false,0); op_fill(ops,2,7,0);
    Json o=Json::object();
    if(e<7){ o["op"]="stmt"; o["how"]=(e%3==0)?"=":(e%3==1?"+=":"-="); o["expr"]=bin[e]; o["t"]=2; o["a"]=0; o["b"]=1; o["ca"]=cat&1; o["cb"]=(cat>>1)&1; o["x"]=0.5; o["flags"]=0; o["fn"]=0; o["nest"]=0; }
    else if(e==7||e==8){ o["op"]="compound"; o["t"]=0; o["s"]=1; o["sign"]=e==7?"+":"-"; }
    else if(e==9){ o["op"]="dot"; o["a"]=0; o["b"]=1; }
    else if(e==10){ o["op"]="rotate_m"; o["a"]=0; o["d"]=d2; o["vs"]=5; }
    else if(e==13){ o["op"]="dot_expr"; o["a"]=0; o["b"]=1; o["i"]=(d1+d2)%3; }
    else if(e==14){ o["op"]="weighted"; o["a"]=0; o["b"]=1; o["vs"]=d1*7+d2; }
    else if(e==15||e==16){ o["op"]="rotate_m"; o["a"]=0; o["d"]=e==15?d1:d2; o["c"]=e==15?d2:d1; o["vs"]=9; }   // non-square: rows or columns agree with the vector, the other extent does not
    else { o["op"]="stmt"; o["how"]=e==11?"=":"+="; o["expr"]="nested"; o["nest"]=e==11?10:11; o["t"]=2; o["a"]=0; o["b"]=1; o["ca"]=0; o["cb"]=0; o["x"]=0.5; o["flags"]=0; o["fn"]=0; }
    ops.push(o);
    if(e>=7) ops.push(o);                                 // queries and compound assignments are repeated: rejected every time
    tab.push_back(ops);
  }
  // assignment-time size policy: operands agree (d1), the target has another dimension (d2) and cannot be resized - it views user storage, or the
  // statement is += / -= - for every value category of the operands (an rvalue operand offers its storage to the target)
  static const char* tex[]={"add","eprod","evol","icomm","neg","smul"};
  for(int d1=2;d1<=6;d1++) for(int d2=2;d2<=6;d2++) if(d1!=d2) for(int te=0;te<6;te++) for(int how=0;how<3;how++) for(int text=0;text<2;text++) for(int cat=0;cat<4;cat++){
    if(how==0 && !text) continue;                       // plain assignment may resize a target that owns its storage
    if(te>=4 && cat>1) continue;                        // unary forms have one operand
    Json ops=Json::array();
    op_make(ops,0,d1,false,0); op_fill(ops,0,d1*10+d2,6);
    op_make(ops,1,d1,false,1); op_fill(ops,1,d2*10+d1,1);
    op_make(ops,2,d2,text==1,2); op_fill(ops,2,7,1);
    Json o=Json::object();
    o["op"]="stmt"; o["how"]=how==0?"=":(how==1?"+=":"-="); o["expr"]=tex[te]; o["t"]=2; o["a"]=0; o["b"]=1; o["ca"]=cat&1; o["cb"]=(cat>>1)&1; o["x"]=0.5; o["flags"]=0; o["fn"]=0; o["nest"]=0;
    ops.push(o);
    tab.push_back(ops);
  }
  // plain copy and move assignment onto a view of user storage from a source of another size, the empty vector included
  for(int d1=2;d1<=6;d1++) for(int d2=0;d2<=6;d2++) if(d1!=d2 && d2!=1) for(int mv=0;mv<2;mv++){
    Json ops=Json::array();
    op_make(ops,0,d1,true,0); op_fill(ops,0,d1*10+d2,6);
    if(d2==0){ Json o=Json::object(); o["op"]="default"; o["t"]=1; ops.push(o); } else { op_make(ops,1,d2,false,1); op_fill(ops,1,d2*10+d1,1); }
    op_make(ops,2,d1,false,0); op_fill(ops,2,7,0);
    Json o=Json::object(); o["op"]=mv?"move_assign":"copy_assign"; o["t"]=0; o["s"]=1; ops.push(o);
    tab.push_back(ops);
  }
  // constructor / factory window; every entry is surrounded by valid vectors whose integrity is checked
  std::vector<Json> faulty;
  static const int badd[]={1,7,8};
  for(int i=0;i<3;i++){ Json o=Json::object(); o["op"]="sized"; o["t"]=2; o["d"]=badd[i]; faulty.push_back(o); }
  for(int i=0;i<3;i++){ Json o=Json::object(); o["op"]="ext"; o["t"]=2; o["d"]=badd[i]; o["buf"]=1; faulty.push_back(o); }
  for(int i=0;i<3;i++) for(int z=0;z<2;z++){ Json o=Json::object(); o["op"]="make_aligned"; o["t"]=2; o["d"]=badd[i]; o["zero"]=z==1; o["vs"]=3; o["vc"]=0; faulty.push_back(o); }
  for(int n=1;n<=64;n++) if(n!=4&&n!=9&&n!=16&&n!=25&&n!=36){ Json o=Json::object(); o["op"]="list"; o["t"]=2; o["n"]=n; o["vs"]=n; o["vc"]=1; faulty.push_back(o); }
  for(int r=1;r<=8;r++) for(int cc=1;cc<=8;cc++){
    bool take=(r!=cc&&r<=7&&cc<=7)||(r==cc&&(r==1||r==7||r==8));
    if(!take) continue;
    for(int up=0;up<2;up++){ if(up==1&&(r+cc)%3) continue; Json o=Json::object(); o["op"]="matrix"; o["t"]=2; o["r"]=r; o["c"]=cc; o["vs"]=r*8+cc; o["vc"]=1; o["uptr"]=up==1; faulty.push_back(o); }
  }
  static const char* fk[]={"proj","ident","pos","neg","gen"};
  for(int w=0;w<5;w++) for(int i=0;i<3;i++){ Json o=Json::object(); o["op"]="factory"; o["t"]=2; o["which"]=fk[w]; o["d"]=badd[i]; o["i"]=0; faulty.push_back(o); }
  for(int w=0;w<5;w++){ if(w==1) continue; for(int d=2;d<=6;d++){
    int lo=(w==4)?d*d:d;
    for(int i=lo;i<=d*d+2;i++){ Json o=Json::object(); o["op"]="factory"; o["t"]=2; o["which"]=fk[w]; o["d"]=d; o["i"]=i; faulty.push_back(o); }   // every index of the window
  } }
  for(size_t f=0;f<faulty.size();f++){
    Json ops=Json::array();
    int d=2+(int)(f%5);
    op_make(ops,0,d,false,0); op_fill(ops,0,(long)f,6);
    op_make(ops,1,d,true,0); op_fill(ops,1,(long)f+1,1);
    if(faulty[f]["op"].as_str()=="factory" && faulty[f]["d"].as_int(0)>=2 && faulty[f]["d"].as_int(0)<=6){
      // a valid request of the same kind and dimension first: whatever the factory remembers of it must not answer the rejected one
      Json v=faulty[f]; v["t"]=4; v["i"]=(int)(f%(size_t)faulty[f]["d"].as_int(2)); ops.push(v);
    }
    ops.push(faulty[f]);
    ops.push(faulty[f]);                                  // the rejected request is repeated: it must be rejected every time
    op_make(ops,3,d,false,0);
    Json dd=Json::object(); dd["op"]="destroy"; dd["t"]=2; ops.push(dd);
    tab.push_back(ops);
  }
  return tab;
}

Json c09_shape(long k,uint64_t){
  long q=k;
  int cats=(int)(q%9); q/=9; int alias=(int)(q%5); q/=5; int tkind=(int)(q%6); q/=6; int form=(int)(q%21); q/=21; int how=(int)(q%4);
  int d=2+(int)((k*7+k/5)%5); int d2=2+(d-2+1+(int)(k%4))%5;
  static const int fl[]={0,1,2,3,4,6,7,0}; int flags=fl[(k/3)%8];
  static const char* hows[]={"=","+=","-=","ctor"};
  Json ops=Json::array();
  bool a_ext=(alias==4)||(k%11==0);
  op_make(ops,0,d,a_ext,0); op_fill(ops,0,k%9973,(int)(k%7==3?2:(k%2?1:6)));
  int b=1;
  if(alias==3) b=0; else { op_make(ops,1,d,(k%13==0),1); op_fill(ops,1,(k+17)%9973,(int)(k%5==0?0:1)); }
  int t=2;
  if(how==HOW_CTOR){ t=2; }
  else if(alias==1) t=0; else if(alias==2) t=b;
  else{
    switch(tkind){
      case 0: case 1: { Json o=Json::object(); o["op"]="default"; o["t"]=2; ops.push(o); break; }
      case 2: op_make(ops,2,d,false,0); op_fill(ops,2,(k+5)%9973,1); break;
      case 3: op_make(ops,2,d2,false,0); op_fill(ops,2,(k+5)%9973,1); break;
      case 4: op_make(ops,2,d,true,alias==4?0:2); if(alias!=4) op_fill(ops,2,(k+5)%9973,1); break;
      default: op_make(ops,2,d2,true,alias==4?0:2); if(alias!=4) op_fill(ops,2,(k+5)%9973,1); break;   // alias 4: other dimension on the operand's buffer
    }
    if(tkind==0 && (k%4==1)){ // a target with stale contents from a recycled block: create and destroy a vector of the size first
      Json ops2=Json::array(); op_make(ops2,3,d,false,0); op_fill(ops2,3,k%101,0); Json dd=Json::object(); dd["op"]="destroy"; dd["t"]=3; ops2.push(dd);
      for(size_t i=0;i<ops.size();i++) ops2.push(ops[i]); ops=ops2;
    }
  }
  Json o=Json::object(); o["op"]="stmt"; o["how"]=hows[how];
  if(form<11){ o["expr"]=expr_names[form]; o["nest"]=0; } else { o["expr"]="nested"; o["nest"]=form-11; }
  o["t"]=t; o["a"]=0; o["b"]=b; o["ca"]=cats/3; o["cb"]=cats%3; o["x"]=(k%3==0)?-1.5:0.75; o["flags"]=flags; o["fn"]=(int)(k%2);
  ops.push(o);
  Json e=Json::object(); e["op"]="eq"; e["a"]=0; e["b"]=t; ops.push(e);
  return ops;
}

// ---------------------------------------------------------------------------------------------
struct RunResult{ Outcome out; std::vector<long> nallocs; Trace tr; uint64_t shape; bool nontrivial; long executed,skipped; AllocStats ast; };

static void trace_state(Exec& ex){
  uint64_t h=1469598103934665603ULL;
  for(int s=0;s<NSLOTS;s++){
    MVec& m=ex.c.mv[s]; int hdr[4]={m.alive,m.kind,(int)m.dim,m.buf}; h=fnv1a(hdr,sizeof hdr,h);
    if(m.alive&&m.kind!=K_EMPTY){ std::vector<double> v=mvals(ex.c,s); for(size_t i=0;i<v.size();i++){ uint64_t b=std::isnan(v[i])?1:bits(v[i]); h=fnv1a(&b,8,h); } }
  }
  ex.c.tr->ev("op#%d %s state=%016llx",ex.c.opi,ex.c.opkind.c_str(),(unsigned long long)h);
}

static void run_once(const Json& plan,int fault_op,long fault_k,bool verbose,bool trace_ops,Counters& ctr,RunResult& rr){
  rr.tr.reset(verbose);
  Exec* ex=new Exec();
  ex->c.out=&rr.out; ex->c.tr=&rr.tr; ex->c.ctr=&ctr; ex->c.opi=-1; ex->c.fault_fired_in_run=false; ex->c.trace_ops=trace_ops;
  ex->fault_op=fault_op; ex->fault_k=fault_k; ex->plan_prop=plan["property"].as_str();
  AllocCfg cfg; const Json& a=plan["alloc"];
  cfg.reuse=(int)a["reuse"].as_int(REUSE_LIFO); cfg.residue=(int)a["residue"].as_int(RESIDUE_RANDOM); cfg.fill=(int)a["fill"].as_int(FILL_NANPAYLOAD);
  cfg.c_reuse=(int)a["c_reuse"].as_int(REUSE_LIFO); cfg.seed=(uint64_t)a["seed"].as_int(1);     // GSL objects the library creates are ledgered too (S2)
  cfg.passthrough=0;
    alloc_run_begin(cfg);
  uint64_t bseed=(uint64_t)plan["buf_seed"].as_int(7);
  for(int b=0;b<NBUFS;b++){
    ex->c.ubuf[b]=user_buffer_alloc(BUFLEN,b);
    ex->c.uoff[b]=(plan["buf_off"].type==Json::Arr && plan["buf_off"].size()>(size_t)b && plan["buf_off"][(size_t)b].as_int(0))?3:0;
    ex->c.bufmodel[b]=gen_values(bseed+b,1,BUFLEN);
    for(int i=0;i<BUFLEN;i++) ex->c.ubuf[b][i]=ex->c.bufmodel[b][i];
  }
  const Json& ops=plan["ops"];
  std::thread th([&]{
    // fresh thread: fresh thread-local block cache and scratch space, as in a fresh process
    for(size_t i=0;i<ops.size()&&i<400;i++){
      if(!rr.out.ok) break;
      ex->c.opi=(int)i; ex->c.opkind=ops[i]["op"].as_str();
      long before=ex->executed;
      ex->run_op(ops[i]);
      if(ex->executed!=before) trace_state(*ex);
    }
    ex->finish();
  });
  th.join();
  ex->c.opi++; ex->c.opkind="quiescence";
  ex->leak_check();
  rr.nallocs=ex->nallocs; rr.shape=ex->shape; rr.nontrivial=ex->nontrivial; rr.executed=ex->executed; rr.skipped=ex->skipped;
  rr.ast=alloc_stats();
  for(int b=0;b<NBUFS;b++) user_buffer_free(ex->c.ubuf[b]);
  alloc_run_end();
  delete ex;
}

struct VecEngine: Engine{
  const char* name() const{ return "vecsim"; }

  Json generate(uint64_t vseed,uint64_t index,const std::string& prop_,const std::string& tier){
    std::string prop=prop_.empty()?"C15":prop_;
    uint64_t rs=run_seed(vseed,index);
    Rng r(stream_seed(rs,STREAM_PLAN));
    Json p=Json::object();
    p["engine"]="vecsim"; p["property"]=prop; p["verif_seed"]=(long long)vseed; p["run"]=(long long)index;
    Json al=Json::object();
    al["reuse"]=(int)r.weighted({20,50,15,15}); al["residue"]=(int)r.weighted({25,25,50}); al["fill"]=(int)r.weighted({70,15,15}); al["c_reuse"]=(int)r.weighted({10,60,15,15});
    al["seed"]=(long long)(stream_seed(rs,STREAM_ALLOC)>>2);
    p["alloc"]=al;
    Json bo=Json::array(); for(int b=0;b<NBUFS;b++) bo.push((int)r.below(2)); p["buf_off"]=bo;
    p["buf_seed"]=(long long)r.below(100000);
    bool enumerated=false;
    if(prop=="C14" && (long)index<(long)c14_table().size()){ p["ops"]=c14_table()[index]; p["source"]="table"; enumerated=true; }
    if(prop=="C09" && (long)index<c09_shapes()){ p["ops"]=c09_shape((long)index,rs); p["source"]="shape-enumeration"; enumerated=true; }
    if(!enumerated){
      int nops;
      if(prop=="C16") nops=r.range(2,12);
      else nops=r.chance(0.7)?r.range(1,12):r.range(13,40);
      Gen g(stream_seed(rs,STREAM_VALUES),prop);
      g.history(nops);
      p["ops"]=g.ops; p["source"]="history";
    }
    if(prop=="C16") p["enumerate_faults"]=true;
    Json sh=Json::array(); sh.push("ops"); p["shrink"]=sh;
    (void)tier;
    return p;
  }

  Outcome execute(const Json& plan,bool verbose,Counters& ctr,std::string* text){
    RunResult rr;
    bool trace_ops=verbose||plan["trace_ops"].as_bool(false);
    int fop=-1; long fk=0;
    if(plan["faults"].type==Json::Arr && plan["faults"].size()>0){ fop=(int)plan["faults"][0]["op"].as_int(-1); fk=(long)plan["faults"][0]["k"].as_int(0); }
    run_once(plan,fop,fk,verbose,trace_ops,ctr,rr);
    Outcome out=rr.out;
    long evals=1;
    uint64_t hash=rr.tr.hash;
    if(out.ok && plan["enumerate_faults"].as_bool(false) && fop<0){
      std::vector<long> n=rr.nallocs;
      long budget=600;
      for(size_t s=0;s<n.size()&&out.ok&&budget>0;s++){
        for(long k=1;k<=n[s]&&out.ok&&budget>0;k++,budget--){
          if(k>8 && k<n[s]) continue;          // operations with dozens of identical allocations (bursts): the first eight and the last one
          RunResult fr;
          if(trace_ops){ printf("FAULT %zu %ld\n",s,k); fflush(stdout); }
          run_once(plan,(int)s,k,false,trace_ops,ctr,fr);
          evals++; hash^=fr.tr.hash*(uint64_t)(s*131+k);
          if(!fr.out.ok){
            out=fr.out;
            out.plan_patch=Json::object();
            Json f=Json::array(); Json fe=Json::object(); fe["op"]=(long long)s; fe["k"]=(long long)k; f.push(fe);
            out.plan_patch["faults"]=f; out.plan_patch["enumerate_faults"]=false;
            char buf[96]; snprintf(buf,sizeof buf," [allocation #%ld of op#%zu failed]",k,s); out.detail+=buf;
          }
        }
      }
      ctr.add("fault_enumerated_runs",evals-1);
    }
    out.evals=evals;
    out.event_hash=hash; out.shape=rr.shape; out.nontrivial=rr.nontrivial; out.sim_steps=rr.executed;
    if(!out.ok && out.prop.empty()) out.prop="C15";
    ctr.add("ops_executed",rr.executed); ctr.add("ops_skipped",rr.skipped);
    ctr.add("alloc_cxx",rr.ast.cxx_allocs); ctr.add("alloc_reused_address",rr.ast.reused); ctr.add("alloc_residue16",rr.ast.residue16);
    if(text) *text=rr.tr.text;
    return out;
  }
};

}

int main(int argc,char** argv){
  VecEngine e;
  return engine_main(argc,argv,e);
}
