// vecsim: observation of the real vectors, the reference model (RefVec) and the per-step invariants.
#ifndef VERIF_VS_MODEL_H
#define VERIF_VS_MODEL_H
#include "vs_common.h"
#include "../../sim/rng.h"
#include <cmath>
#include <cstdint>
#include <set>

namespace vs{

inline uint64_t bits(double d){ uint64_t u; memcpy(&u,&d,8); return u; }
inline bool same_value(double a,double b){ return bits(a)==bits(b) || (std::isnan(a)&&std::isnan(b)); }

// deterministic component values from (seed, category)
inline std::vector<double> gen_values(uint64_t seed,int cat,unsigned n){
  verif::Rng r(verif::mix(seed,(uint64_t)cat+77));
  std::vector<double> v(n);
  static const double special[]={0.0,-0.0,1.0,-1.0,0.5,3.0,1e-3,-2.5,7.0,0.125};
  for(unsigned i=0;i<n;i++){
    switch(cat){
      case 0: v[i]=(double)r.range(-4,4); break;
      case 1: v[i]=r.uniform(-2,2); break;
      case 2: v[i]=special[r.below(10)]; break;
      case 3: v[i]=r.chance(0.3)?(r.chance(0.5)?1e150:-1e150)*r.uniform(0.5,2):r.uniform(-2,2); break;
      case 4: v[i]=r.chance(0.5)?4.9406564584124654e-324*(double)r.range(1,1000):1e-310*r.uniform(-1,1); break;
      case 5: v[i]=(double)((seed%7)+1); break;
      default: v[i]=(double)(i+1)+0.25*(double)(seed%4); break;
    }
  }
  return v;
}

struct Obs{
  unsigned dim,size; const double* addr; int range; long block; int ubuf; size_t off; bool aligned;
};

inline Obs observe(Ctx& c,int s){
  Obs o; memset(&o,0,sizeof o);
  SU_vector& v=c.slot[s].v();
  o.dim=v.Dim(); o.size=v.Size(); o.addr=0; o.range=verif::RANGE_NONE; o.block=-1; o.ubuf=-1; o.off=0; o.aligned=false;
  if(o.size>0 && o.size<=4096){
    o.addr=&v[0];
    o.range=verif::alloc_classify(o.addr,o.size*sizeof(double),&o.block,&o.ubuf,&o.off);
    o.aligned=((uintptr_t)(o.addr+o.dim%2))%32==0;
  }
  return o;
}

inline void violation(Ctx& c,const std::string& prop,const std::string& cls,const std::string& sig,const std::string& detail){
  if(!c.out->ok) return;
  c.out->fail(cls,sig,"op#"+std::to_string(c.opi)+" "+c.opkind+": "+detail);
  c.out->prop=c.fault_fired_in_run?"C16":prop;
}

// current model values of a slot (reads the buffer model for external vectors)
inline std::vector<double> mvals(Ctx& c,int s){
  MVec& m=c.mv[s];
  if(m.kind==K_OWNED) return m.c;
  if(m.kind==K_EXT){ std::vector<double> r(m.dim*m.dim); for(unsigned i=0;i<r.size();i++) r[i]=c.bufmodel[m.buf][c.uoff[m.buf]+i]; return r; }
  return std::vector<double>();
}
inline void mset(Ctx& c,int s,const std::vector<double>& vals){
  MVec& m=c.mv[s];
  if(m.kind==K_OWNED) m.c=vals;
  else if(m.kind==K_EXT){ for(unsigned i=0;i<vals.size()&&i<m.dim*m.dim;i++) c.bufmodel[m.buf][c.uoff[m.buf]+i]=vals[i]; }
}
inline unsigned msize(const MVec& m){ return m.kind==K_EMPTY?0:m.dim*m.dim; }

// take over the observed state of a slot after checking that it is valid
inline bool adopt(Ctx& c,int s,const std::string& prop,bool values_too=false){
  Obs o=observe(c,s);
  MVec& m=c.mv[s];
  if(o.size==0){
    if(o.dim!=0){ violation(c,prop,"model:invalid-state","dim-without-size","slot "+std::to_string(s)+" reports dimension "+std::to_string(o.dim)+" with size 0"); return false; }
    m.kind=K_EMPTY; m.dim=0; m.buf=-1; m.c.clear(); return true;
  }
  if(o.dim<2||o.dim>6||o.size!=o.dim*o.dim){
    violation(c,prop,"model:invalid-state","bad-dimension","slot "+std::to_string(s)+" reports dimension "+std::to_string(o.dim)+" size "+std::to_string(o.size)); return false;
  }
  if(o.range==verif::RANGE_LIB_BLOCK){
    m.kind=K_OWNED; m.dim=o.dim; m.buf=-1; m.c.assign(o.addr,o.addr+o.size); return true;
  }
  if(o.range==verif::RANGE_USER_BUFFER && o.ubuf>=0 && o.ubuf<NBUFS && o.off==(size_t)c.uoff[o.ubuf]*sizeof(double)){
    m.kind=K_EXT; m.dim=o.dim; m.buf=o.ubuf; m.c.clear();
    if(values_too) for(unsigned i=0;i<o.size;i++) c.bufmodel[o.ubuf][c.uoff[o.ubuf]+i]=o.addr[i];   // otherwise the buffer must still hold what the model says
    return true;
  }
  violation(c,prop,"model:invalid-storage",o.range==verif::RANGE_FREED?"freed-block":"unknown-storage",
            "slot "+std::to_string(s)+" (dimension "+std::to_string(o.dim)+") points at "+(o.range==verif::RANGE_FREED?"a released block":"storage that is neither a live library block nor its user buffer"));
  return false;
}

// every live vector equals its model bit for bit; storage of owning vectors is pairwise disjoint; user buffers hold
// exactly what the model says; the ledger recorded no error
inline void check_all(Ctx& c,const std::string& prop,const std::string& what){
  if(!c.out->ok) return;
  long blocks[NSLOTS]; for(int i=0;i<NSLOTS;i++) blocks[i]=-1;
  for(int s=0;s<NSLOTS;s++){
    if(!c.mv[s].alive) continue;
    MVec& m=c.mv[s];
    Obs o=observe(c,s);
    std::string id="slot "+std::to_string(s);
    if(m.kind==K_EMPTY){
      if(o.size!=0){ violation(c,prop,"model:other-changed",what+":empty-became-nonempty",id+" should be empty but reports size "+std::to_string(o.size)); return; }
      // a vector without storage is indistinguishable from a default-constructed one through the public interface (it owns nothing, it views nothing)
      if(!m.moved_from){ bool eq=true; try{ squids::SU_vector e; eq=(c.slot[s].v()==e)&&(e==c.slot[s].v()); }catch(...){ eq=false; }
        if(!eq){ violation(c,prop,"model:invalid-state",what+":empty-not-equal-to-empty",id+" has no storage (dimension 0) but does not compare equal to a default-constructed vector: it still claims to own or view something"); return; } }
      continue;
    }
    if(o.dim!=m.dim||o.size!=m.dim*m.dim){
      violation(c,prop,"model:other-changed",what+":dimension",id+" has dimension "+std::to_string(o.dim)+" (size "+std::to_string(o.size)+"), model says "+std::to_string(m.dim)); return;
    }
    if(m.kind==K_OWNED){
      if(o.range!=verif::RANGE_LIB_BLOCK){
        violation(c,prop,"model:invalid-storage",what+(o.range==verif::RANGE_FREED?":freed-block":o.range==verif::RANGE_USER_BUFFER?":owned-became-external":":unknown-storage"),
                  id+" is modelled as self-owned but its elements are "+(o.range==verif::RANGE_FREED?"in a released block":o.range==verif::RANGE_USER_BUFFER?"in a user buffer":"outside every live block")); return;
      }
      blocks[s]=o.block;
      for(int t=0;t<s;t++) if(blocks[t]==o.block){
        violation(c,"C08","model:storage-overlap",what,id+" and slot "+std::to_string(t)+" have their elements in the same library block: a later assignment to one overwrites the other"); return;
      }
      for(unsigned i=0;i<o.size;i++) if(!same_value(o.addr[i],m.c[i])){
        char buf[200]; snprintf(buf,sizeof buf," component %u is %.17g, model says %.17g%s",i,o.addr[i],m.c[i],bits(o.addr[i])==verif::NAN_PAYLOAD?" (never written: fresh-memory pattern)":"");
        violation(c,prop,"model:value-mismatch",what,id+buf); return;
      }
    }else{
      if(o.range!=verif::RANGE_USER_BUFFER||o.ubuf!=m.buf||o.off!=(size_t)c.uoff[m.buf]*sizeof(double)){
        violation(c,prop,"model:external-rebound",what,id+" is bound to user buffer "+std::to_string(m.buf)+" but its elements are elsewhere"); return;
      }
    }
  }
  for(int b=0;b<NBUFS;b++){
    for(int i=0;i<BUFLEN;i++) if(!same_value(c.ubuf[b][i],c.bufmodel[b][i])){
      char buf[200]; snprintf(buf,sizeof buf,"user buffer %d element %d is %.17g, model says %.17g",b,i-c.uoff[b],c.ubuf[b][i],c.bufmodel[b][i]);
      violation(c,prop,"model:buffer-mismatch",what,buf); return;
    }
  }
  verif::alloc_check_guards();
  verif::AllocError errs[4];
  int ne=verif::alloc_errors(errs,4);
  if(ne>0){
    static const char* names[]={"none","double-free","foreign-free","user-buffer-freed","guard-overwritten","write-after-free","mismatched-new-delete"};
    violation(c,"C15",std::string("ledger:")+names[errs[0].kind],what,std::string(names[errs[0].kind])+" of block #"+std::to_string(errs[0].block_id)+" ("+std::to_string(errs[0].size)+" bytes, allocated in op#"+std::to_string(errs[0].tag)+")");
  }
}

}
#endif
