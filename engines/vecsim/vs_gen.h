// vecsim: seeded plan generation (random histories per property profile, the C14 argument-fault table and the C09 shape enumeration)
#ifndef VERIF_VS_GEN_H
#define VERIF_VS_GEN_H
#include "vs_common.h"
#include "../../sim/json.h"
#include "../../sim/rng.h"

namespace vs{

using verif::Json; using verif::Rng;

struct GSlot{ bool alive; int dim; int kind; bool mf; };

struct Gen{
  Rng r; GSlot g[NSLOTS]; Json ops; std::string prop;
  explicit Gen(uint64_t seed,const std::string& p):r(seed),ops(Json::array()),prop(p){ for(int i=0;i<NSLOTS;i++){ g[i].alive=false; g[i].dim=0; g[i].kind=K_EMPTY; g[i].mf=false; } }

  int pick(bool (*pred)(const GSlot&)){
    int cand[NSLOTS],n=0; for(int i=0;i<NSLOTS;i++) if(pred(g[i])) cand[n++]=i;
    return n?cand[r.below(n)]:-1;
  }
  static bool p_dead(const GSlot& s){ return !s.alive; }
  static bool p_alive(const GSlot& s){ return s.alive; }
  static bool p_usable(const GSlot& s){ return s.alive&&!s.mf&&s.dim>=2; }
  static bool p_mf(const GSlot& s){ return s.alive&&s.mf; }
  int pick_usable_dim(int d,int except=-1){
    int cand[NSLOTS],n=0; for(int i=0;i<NSLOTS;i++) if(p_usable(g[i])&&g[i].dim==d&&i!=except) cand[n++]=i;
    return n?cand[r.below(n)]:-1;
  }
  int pick_usable_otherdim(int d){
    int cand[NSLOTS],n=0; for(int i=0;i<NSLOTS;i++) if(p_usable(g[i])&&g[i].dim!=d) cand[n++]=i;
    return n?cand[r.below(n)]:-1;
  }
  int dimension(){ static const int w[]={2,3,3,3,4,4,5,6}; return w[r.below(8)]; }
  int valcat(){ return (int)r.weighted({25,25,15,5,5,5,20}); }
  Json& add(const char* op){ Json o=Json::object(); o["op"]=op; return ops.push(o); }
  void values(Json& o){ o["vs"]=(long long)r.below(1000000); o["vc"]=valcat(); }

  void fill(int t){ Json& o=add("fill"); o["t"]=t; values(o); }

  // a valid construction into a dead slot; returns the slot or -1
  int construct(int want_dim=0){
    int t=pick(p_dead); if(t<0) return -1;
    int d=want_dim?want_dim:dimension();
    int k=(int)r.weighted({30,18,10,6,10,8,4});
    switch(k){
      case 0:{ Json& o=add("sized"); o["t"]=t; o["d"]=d; g[t]={true,d,K_OWNED,false}; if(r.chance(0.85)) fill(t); break; }
      case 1:{ Json& o=add("ext"); o["t"]=t; o["d"]=d; o["buf"]=(int)r.below(NBUFS); g[t]={true,d,K_EXT,false}; if(r.chance(0.85)) fill(t); break; }
      case 2:{ Json& o=add("list"); o["t"]=t; o["n"]=d*d; values(o); g[t]={true,d,K_OWNED,false}; break; }
      case 3:{ Json& o=add("matrix"); o["t"]=t; o["r"]=d; o["c"]=d; values(o); o["uptr"]=r.chance(0.3); g[t]={true,d,K_OWNED,false}; break; }
      case 4:{ Json& o=add("factory"); o["t"]=t; o["d"]=d; static const char* w[]={"proj","ident","pos","neg","gen"}; int wi=(int)r.below(5); o["which"]=w[wi];
               o["i"]=(int)r.below(wi==4?d*d:d); g[t]={true,d,K_OWNED,false}; break; }
      case 5:{ Json& o=add("make_aligned"); o["t"]=t; o["d"]=d; o["zero"]=r.chance(0.5); values(o); g[t]={true,d,K_OWNED,false}; break; }
      default:{ Json& o=add("default"); o["t"]=t; g[t]={true,0,K_EMPTY,false}; break; }
    }
    return t;
  }

  void stmt(bool want_move=false){
    int a=pick(p_usable); if(a<0){ construct(); return; }
    int d=g[a].dim;
    int e=(int)r.weighted({14,10,6,6,6,12,12,10,8,6,5,8});
    bool binary=!(e==E_NEG||e==E_SMUL||e==E_MULS);
    int b=a;
    if(binary||e==E_FEVOL){
      b=r.chance(0.15)?a:pick_usable_dim(d,r.chance(0.8)?a:-1);
      if(b<0){ if(r.chance(0.6)){ b=construct(d); if(b<0) b=a; } else b=a; }
    }
    int how=(int)r.weighted({45,18,18,19});
    int t;
    if(how==HOW_CTOR){ t=pick(p_dead); if(t<0){ how=HOW_ASSIGN; } }
    if(how!=HOW_CTOR){
      int sel=(int)r.weighted({30,20,12,38}); // alias a, alias b, same-dim other, anything alive
      if(sel==0) t=a; else if(sel==1) t=b; else if(sel==2){ t=pick_usable_dim(d); if(t<0) t=pick(p_alive); } else t=pick(p_alive);
      if(t<0) t=a;
    }
    Json& o=add("stmt");
    static const char* hows[]={"=","+=","-=","ctor"};
    o["how"]=hows[how]; o["expr"]=expr_names[e]; o["t"]=t; o["a"]=a; o["b"]=b;
    int ca=(int)r.weighted({50,30,20}),cb=(int)r.weighted({60,22,18});
    if(want_move){ if(r.chance(0.7)) ca=CAT_MOVE; else cb=CAT_MOVE; if(e>E_MULS&&e!=E_EPROD&&e!=E_EOP){ o["expr"]=expr_names[r.chance(0.5)?E_ADD:E_SUB]; e=E_ADD; } }
    o["ca"]=ca; o["cb"]=cb; o["x"]=r.chance(0.3)?(double)r.range(-3,3):r.uniform(-2,2);
    o["flags"]=(int)r.weighted({40,12,12,12,8,4,6,6}); o["fn"]=(int)r.below(2); o["nest"]=(int)r.below(12);
    // approximate effect on the generator's view
    if(how==HOW_CTOR) g[t]={true,d,K_OWNED,false};
    else if(how==HOW_ASSIGN && g[t].kind!=K_EXT){ g[t].dim=d; g[t].kind=K_OWNED; g[t].mf=false; }
    if(ca==CAT_MOVE && a!=t && e<=E_MULS) g[a].mf=true;
    if(cb==CAT_MOVE && b!=t && (e==E_ADD||e==E_EPROD||e==E_EOP)) g[b].mf=true;
  }

  void copy_move_ctor(){
    int s=pick(r.chance(0.85)?p_usable:p_alive); int t=pick(p_dead);
    if(s<0||t<0){ if(t>=0) construct(); else destroy(); return; }
    bool mv=r.chance(0.5);
    Json& o=add(mv?"move_ctor":"copy_ctor"); o["t"]=t; o["s"]=s;
    g[t]=g[s]; g[t].mf=false; if(!mv&&g[t].kind==K_EXT) g[t].kind=K_OWNED;
    if(mv) g[s].mf=true;
  }
  void assign(){
    int s=pick(r.chance(0.85)?p_usable:p_alive); int t=pick(p_alive);
    if(s<0||t<0){ construct(); return; }
    if(r.chance(0.05)) t=s;
    bool mv=r.chance(0.5);
    Json& o=add(mv?"move_assign":"copy_assign"); o["t"]=t; o["s"]=s;
    if(t==s) return;
    if(g[t].kind==K_EXT&&!g[t].mf){ if(mv) g[s].mf=true; return; }
    GSlot old=g[t];
    g[t].dim=g[s].dim; g[t].kind=mv?g[s].kind:(g[s].dim?K_OWNED:K_EMPTY); g[t].mf=false;
    if(mv){ g[s].mf=true; if(old.kind==K_OWNED){ g[s].dim=old.dim; g[s].kind=K_OWNED; } else if(g[s].kind==K_OWNED){ g[s].dim=0; g[s].kind=K_EMPTY; } }
  }
  void destroy(){ int t=pick(p_alive); if(t<0) return; Json& o=add("destroy"); o["t"]=t; g[t].alive=false; g[t].mf=false; }
  void write(){
    int t=pick(p_usable); if(t<0){ construct(); return; }
    int k=(int)r.below(3);
    if(k==0){ Json& o=add("set_elem"); o["t"]=t; o["i"]=(int)r.below(36); o["x"]=r.uniform(-3,3); }
    else if(k==1){ Json& o=add("set_all"); o["t"]=t; o["x"]=(double)r.range(-2,2); }
    else fill(t);
  }
  void compound(){
    int t=pick(p_usable); if(t<0){ construct(); return; }
    if(r.chance(0.35)){ Json& o=add("scale"); o["t"]=t; o["sign"]=r.chance(0.5)?"*":"/"; o["x"]=r.chance(0.5)?(double)r.range(1,4):r.uniform(0.1,3); return; }
    int s=r.chance(0.1)?t:pick_usable_dim(g[t].dim); if(s<0) s=t;
    Json& o=add("compound"); o["t"]=t; o["s"]=s; o["sign"]=r.chance(0.5)?"+":"-";
  }
  void set_backing(){
    int t=pick(p_usable); if(t<0){ construct(); return; }
    Json& o=add("set_backing"); o["t"]=t; o["buf"]=(int)r.below(NBUFS); g[t].kind=K_EXT;
  }
  void query(){
    if(r.chance(0.06)){ int e=pick(p_alive); if(e>=0 && g[e].dim==0 && !g[e].mf){ Json& o=add(r.chance(0.5)?"getmatrix":"eigen"); o["a"]=e; o["b"]=e; o["order"]=true; return; } }
    int a=pick(p_usable); if(a<0){ construct(); return; }
    static const char* q[]={"eq","dot","getcomps","getmatrix","real","imag","transpose","rotate","rotate_b","utransform_m","utransform_v","eigen","prep_evolve","print","rotate_m","weighted","dot_expr","const_ops"};
    int k=(int)r.weighted({10,8,8,6,5,5,6,6,5,6,6,5,10,4,5,3,5,5});
    Json& o=add(q[k]); o["a"]=a;
    int b=pick_usable_dim(g[a].dim); if(b<0) b=a;
    if(k==0) b=pick(p_alive);
    o["b"]=b; o["x"]=r.uniform(-2,2); o["y"]=r.uniform(0.1,2); o["i"]=(int)r.below(6); o["j"]=(int)r.below(6); o["vs"]=(long long)r.below(100000);
    o["b0"]=r.chance(0.5); o["dag"]=r.chance(0.5); o["order"]=r.chance(0.7); o["variant"]=(int)r.below(5); o["d"]=g[a].dim;
  }
  void cache(){
    if(r.chance(0.35)){ Json& o=add("container"); Json sl=Json::array(); int n=r.range(1,5); for(int i=0;i<n;i++){ int s=pick(p_usable); if(s>=0) sl.push(s); } o["slots"]=sl; o["vs"]=(long long)r.below(100000); return; }
    if(r.chance(0.4)){ add("clear_cache"); return; }
    Json& o=add("burst"); o["d"]=dimension(); o["n"]=r.chance(0.7)?r.range(33,40):r.range(1,32); o["lifo"]=r.chance(0.5); o["refill"]=r.chance(0.5);
  }
  void followup(){
    int m=pick(p_mf); if(m<0){ if(r.chance(0.6)) stmt(true); else copy_move_ctor(); return; }
    int k=(int)r.weighted({30,18,12,12,10,18});
    int s=pick(p_usable);
    switch(k){
      case 0: if(s>=0){ Json& o=add("copy_assign"); o["t"]=m; o["s"]=s; g[m].dim=g[s].dim; g[m].kind=K_OWNED; g[m].mf=false; } break;
      case 1: if(s>=0){ Json& o=add("move_assign"); o["t"]=m; o["s"]=s; g[m].dim=g[s].dim; g[m].kind=g[s].kind; g[m].mf=false; g[s].mf=true; } break;
      case 2: if(s>=0){ Json& o=add("stmt"); o["how"]="="; o["expr"]=expr_names[r.below(7)]; o["t"]=m; o["a"]=s; int b=pick_usable_dim(g[s].dim); o["b"]=b<0?s:b; o["ca"]=0; o["cb"]=0; o["x"]=1.5; o["flags"]=0; o["fn"]=0; o["nest"]=0;
                       g[m].dim=g[s].dim; g[m].kind=K_OWNED; g[m].mf=false; } break;
      case 3:{ Json& o=add("eq"); o["a"]=m; o["b"]=s<0?m:s; break; }
      case 4:{ int t=pick(p_dead); if(t>=0){ Json& o=add("move_ctor"); o["t"]=t; o["s"]=m; g[t]=g[m]; g[t].mf=false; } break; }
      default:{ Json& o=add("destroy"); o["t"]=m; g[m].alive=false; g[m].mf=false; }
    }
  }
  // an operation whose arguments must be rejected (C14)
  void argfault(){
    int k=(int)r.weighted({10,8,8,10,8,8,30,8,5,5});
    int t=pick(p_dead);
    static const int badd[]={1,7,8};
    switch(k){
      case 0: if(t>=0){ Json& o=add("sized"); o["t"]=t; o["d"]=badd[r.below(3)]; } break;
      case 1: if(t>=0){ Json& o=add("ext"); o["t"]=t; o["d"]=badd[r.below(3)]; o["buf"]=(int)r.below(NBUFS); } break;
      case 2: if(t>=0){ Json& o=add("make_aligned"); o["t"]=t; o["d"]=badd[r.below(3)]; o["zero"]=r.chance(0.5); values(o); } break;
      case 3: if(t>=0){ Json& o=add("list"); o["t"]=t; int n; do{ n=r.range(1,64); }while(n==4||n==9||n==16||n==25||n==36); o["n"]=n; values(o); } break;
      case 4: if(t>=0){ Json& o=add("matrix"); o["t"]=t; int rr=r.range(1,8),cc=r.range(1,8); if(rr==cc&&rr>=2&&rr<=6) cc=rr+1; o["r"]=rr; o["c"]=cc; values(o); o["uptr"]=r.chance(0.3); } break;
      case 5: if(t>=0){ Json& o=add("factory"); o["t"]=t; static const char* w[]={"proj","ident","pos","neg","gen"}; int wi=(int)r.below(5); o["which"]=w[wi];
                        if(r.chance(0.4)||wi==1){ o["d"]=badd[r.below(3)]; o["i"]=0; } else { int d=dimension(); o["d"]=d; o["i"]=(wi==4?d*d:d)+(int)r.below(3); } } break;
      case 6:{ // binary operation on different dimensions
        int a=pick(p_usable); if(a<0){ construct(); return; }
        int b=pick_usable_otherdim(g[a].dim);
        if(b<0){ int d; do{ d=dimension(); }while(d==g[a].dim); b=construct(d); if(b<0) return; }
        if(r.chance(0.5)) std::swap(a,b);
        int e=(int)r.weighted({12,12,12,12,20,8,8,10}); static const int es[]={E_ADD,E_SUB,E_ICOMM,E_ACOMM,E_EVOL,E_EPROD,E_EOP,E_NESTED};
        Json& o=add("stmt"); static const char* hows[]={"=","+=","-=","ctor"}; int how=(int)r.below(4); int tt=pick(p_alive);
        if(how==HOW_CTOR){ tt=pick(p_dead); if(tt<0){ how=0; tt=a; } }
        o["how"]=hows[how]; o["expr"]=expr_names[es[e]]; o["t"]=tt; o["a"]=a; o["b"]=b; o["ca"]=(int)r.below(3); o["cb"]=(int)r.below(3); o["x"]=0.7; o["flags"]=0; o["fn"]=(int)r.below(2); o["nest"]=(es[e]==E_NESTED)?(int)(10+r.below(2)):0;
        break; }
      case 7:{ int a=pick(p_usable); if(a<0){ construct(); return; } int b=pick_usable_otherdim(g[a].dim); if(b<0) return;
               Json& o=add("compound"); o["t"]=a; o["s"]=b; o["sign"]=r.chance(0.5)?"+":"-"; break; }
      case 8:{ int a=pick(p_usable); if(a<0){ construct(); return; } int b=pick_usable_otherdim(g[a].dim); if(b<0) return;
               Json& o=add(r.chance(0.5)?"dot":"dot_expr"); o["a"]=a; o["b"]=b; o["i"]=(int)r.below(3); break; }
      default:{ int a=pick(p_usable); if(a<0){ construct(); return; } int d; do{ d=r.range(1,7); }while(d==g[a].dim);
               Json& o=add("rotate_m"); o["a"]=a; o["d"]=d; o["vs"]=(long long)r.below(1000);
               if(r.chance(0.3)){ if(r.chance(0.5)){ o["c"]=g[a].dim; } else { o["d"]=g[a].dim; o["c"]=d; } } }   // non-square: one extent agrees
    }
  }

  void history(int nops){
    static const int prof_C08[]={16,10,16,16,5,4,8,5,4,6,3,10};
    static const int prof_C09[]={14,4,6,50,5,3,5,5,2,2,2,2};
    static const int prof_C14[]={14,4,6,10,3,3,5,4,4,2,40,5};
    static const int prof_C15[]={14,8,10,14,4,4,8,5,12,8,8,5};
    static const int prof_C16[]={16,10,14,18,4,4,8,5,6,4,3,8};
    const int* p=prof_C15;
    if(prop=="C08") p=prof_C08; else if(prop=="C09") p=prof_C09; else if(prop=="C14") p=prof_C14; else if(prop=="C16") p=prof_C16;
    std::vector<int> w(p,p+12);
    int warm=r.range(1,3);
    for(int i=0;i<warm;i++) construct();
    while((int)ops.size()<nops){
      switch((int)r.weighted(w)){
        case 0: construct(); break;
        case 1: copy_move_ctor(); break;
        case 2: assign(); break;
        case 3: stmt(); break;
        case 4: write(); break;
        case 5: compound(); break;
        case 6: destroy(); break;
        case 7: set_backing(); break;
        case 8: query(); break;
        case 9: cache(); break;
        case 10: argfault(); break;
        default: followup(); break;
      }
    }
  }
};

// ---- C14: the bounded table of argument faults, each as a short plan
// ---- C09: enumeration of statement shapes
inline long c09_shapes(){ return 4L*21*6*5*9; }
Json c09_shape(long k,uint64_t seed);

}
#endif
