// One translation unit per expression kind (-DSTMT_KIND=k): the fused statement forms
//   t = expr, t += expr, t -= expr, SU_vector t(expr)
// with every operand value category and every guarantee flag set, and the unfused reference evaluation.
#include "vs_common.h"
#include <utility>
#include <functional>

#ifndef STMT_KIND
#error "compile with -DSTMT_KIND=<ExprKind>"
#endif

namespace vs{
namespace{

using squids::detail::guarantee;

// ---- continuation: apply "how" to the target with guarantee flags F
template<unsigned F> struct Apply{
  Ctx& c; const Stmt& s;
  Apply(Ctx& c_,const Stmt& s_):c(c_),s(s_){}
  template<class P> void operator()(const P& p) const{
    switch(s.how){
      case HOW_ASSIGN: { SU_vector& T=c.slot[s.target].v(); if(F) T=guarantee<F>(p); else T=p; break; }
      case HOW_INC:    { SU_vector& T=c.slot[s.target].v(); if(F) T+=guarantee<F>(p); else T+=p; break; }
      case HOW_DEC:    { SU_vector& T=c.slot[s.target].v(); if(F) T-=guarantee<F>(p); else T-=p; break; }
      default:{
        // SU_vector t(expr): the proxy is an rvalue in user code
        P& q=const_cast<P&>(p);
        if(F) new(c.slot[s.target].mem) SU_vector(guarantee<F>(q));
        else  new(c.slot[s.target].mem) SU_vector(static_cast<P&&>(q));
        c.slot[s.target].alive=true;
      }
    }
  }
  // values (nested forms yield SU_vector objects, not proxies)
  void value(SU_vector&& r) const{
    switch(s.how){
      case HOW_ASSIGN: c.slot[s.target].v()=std::move(r); break;
      case HOW_INC:    c.slot[s.target].v()+=r; break;
      case HOW_DEC:    c.slot[s.target].v()-=r; break;
      default: new(c.slot[s.target].mem) SU_vector(std::move(r)); c.slot[s.target].alive=true;
    }
  }
};

// ---- builders: create the proxy with the operand value categories of the plan and pass it on
#define A_ A
#define B_ B
// every pair of operand value categories is written out even where the library has (today) no overload that distinguishes them: an rvalue then
// simply binds to the const reference, and an overload added later is exercised without touching the harness
#define BIN9(F) switch(s.a.cat*3+s.b.cat){ \
    case 0: k(F(A_,B_)); break; \
    case 1: k(F(A_,std::move(B_))); break; \
    case 2: k(F(A_,SU_vector(B_))); break; \
    case 3: k(F(std::move(A_),B_)); break; \
    case 4: k(F(std::move(A_),std::move(B_))); break; \
    case 5: k(F(std::move(A_),SU_vector(B_))); break; \
    case 6: k(F(SU_vector(A_),B_)); break; \
    case 7: k(F(SU_vector(A_),std::move(B_))); break; \
    default: k(F(SU_vector(A_),SU_vector(B_))); break; }
#define F_SUB(p_,q_) ((p_)-(q_))
#define F_ICOMM(p_,q_) squids::iCommutator(p_,q_)
#define F_ACOMM(p_,q_) squids::ACommutator(p_,q_)
#define F_EVOL(p_,q_) (p_).Evolve(q_,s.x)

template<class K> void build(SU_vector& A,SU_vector& B,const Stmt& s,K k){
#if STMT_KIND==0  /* E_ADD */
  switch(s.a.cat*3+s.b.cat){
    case 0: k(A_+B_); break;
    case 1: k(A_+std::move(B_)); break;
    case 2: k(A_+SU_vector(B_)); break;
    case 3: k(std::move(A_)+B_); break;
    case 4: k(std::move(A_)+std::move(B_)); break;
    case 5: k(std::move(A_)+SU_vector(B_)); break;
    case 6: k(SU_vector(A_)+B_); break;
    case 7: k(SU_vector(A_)+std::move(B_)); break;
    default: k(SU_vector(A_)+SU_vector(B_)); break;
  }
#elif STMT_KIND==1 /* E_SUB */
  BIN9(F_SUB)
#elif STMT_KIND==2 /* E_NEG */
  switch(s.a.cat){
    case CAT_LVALUE: k(-A_); break;
    case CAT_MOVE: k(-std::move(A_)); break;
    default: k(-SU_vector(A_)); break;
  }
#elif STMT_KIND==3 /* E_SMUL */
  switch(s.a.cat){
    case CAT_LVALUE: k(s.x*A_); break;
    case CAT_MOVE: k(s.x*std::move(A_)); break;
    default: k(s.x*SU_vector(A_)); break;
  }
#elif STMT_KIND==4 /* E_MULS */
  switch(s.a.cat){
    case CAT_LVALUE: k(A_*s.x); break;
    case CAT_MOVE: k(std::move(A_)*s.x); break;
    default: k(SU_vector(A_)*s.x); break;
  }
#elif STMT_KIND==5 /* E_ICOMM */
  BIN9(F_ICOMM)
#elif STMT_KIND==6 /* E_ACOMM */
  BIN9(F_ACOMM)
#elif STMT_KIND==7 /* E_EVOL: a evolved by operator b over time x */
  BIN9(F_EVOL)
#elif STMT_KIND==8 /* E_FEVOL */
  switch(s.a.cat==CAT_TEMP?1:0){
    case 0: k(A_.Evolve(s.evolbuf)); break;
    default: k(SU_vector(A_).Evolve(s.evolbuf)); break;
  }
#elif STMT_KIND==9 /* E_EPROD */
  switch((s.a.cat!=CAT_LVALUE?2:0)+(s.b.cat!=CAT_LVALUE?1:0)){
    case 0: k(squids::ElementwiseProduct(A_,B_)); break;
    case 1: if(s.b.cat==CAT_MOVE) k(squids::ElementwiseProduct(A_,std::move(B_))); else k(squids::ElementwiseProduct(A_,SU_vector(B_))); break;
    case 2: if(s.a.cat==CAT_MOVE) k(squids::ElementwiseProduct(std::move(A_),B_)); else k(squids::ElementwiseProduct(SU_vector(A_),B_)); break;
    default: if(s.a.cat==CAT_MOVE&&s.b.cat==CAT_MOVE) k(squids::ElementwiseProduct(std::move(A_),std::move(B_)));
             else k(squids::ElementwiseProduct(SU_vector(A_),SU_vector(B_))); break;
  }
#elif STMT_KIND==10 /* E_EOP */
  if(s.fn==0){
    switch((s.a.cat!=CAT_LVALUE?2:0)+(s.b.cat!=CAT_LVALUE?1:0)){
      case 0: k(squids::ElementwiseOperation(AMinus2B(),A_,B_)); break;
      case 1: if(s.b.cat==CAT_MOVE) k(squids::ElementwiseOperation(AMinus2B(),A_,std::move(B_))); else k(squids::ElementwiseOperation(AMinus2B(),A_,SU_vector(B_))); break;
      case 2: if(s.a.cat==CAT_MOVE) k(squids::ElementwiseOperation(AMinus2B(),std::move(A_),B_)); else k(squids::ElementwiseOperation(AMinus2B(),SU_vector(A_),B_)); break;
      default: if(s.a.cat==CAT_MOVE&&s.b.cat==CAT_MOVE) k(squids::ElementwiseOperation(AMinus2B(),std::move(A_),std::move(B_)));
               else k(squids::ElementwiseOperation(AMinus2B(),SU_vector(A_),SU_vector(B_))); break;
    }
  }else{
    switch((s.a.cat!=CAT_LVALUE?2:0)+(s.b.cat!=CAT_LVALUE?1:0)){
      case 0: k(squids::ElementwiseOperation(MaxAbs(),A_,B_)); break;
      case 1: k(squids::ElementwiseOperation(MaxAbs(),A_,SU_vector(B_))); break;
      case 2: if(s.a.cat==CAT_MOVE) k(squids::ElementwiseOperation(MaxAbs(),std::move(A_),B_)); else k(squids::ElementwiseOperation(MaxAbs(),SU_vector(A_),B_)); break;
      default: k(squids::ElementwiseOperation(MaxAbs(),SU_vector(A_),SU_vector(B_))); break;
    }
  }
#elif STMT_KIND==11 /* E_NESTED: expressions of expressions; they yield SU_vector values */
  switch(s.nest){
    case 0: k.value((A_+B_)*s.x); break;
    case 1: k.value((A_+B_)+B_); break;
    case 2: k.value((A_-B_)-A_); break;
    case 3: k.value(-(A_+B_)); break;
    case 4: k.value((A_+B_).Evolve(B_,s.x)); break;
    case 5: k.value((A_+B_)+(A_-B_)); break;
    case 6: k.value((A_+B_)-(s.x*A_)); break;
    case 7: k.value((s.x*A_).Evolve(A_-B_,s.x)); break;
    case 8: k.value(-(std::move(A_)+B_)); break;
    case 10: k.value((A_+A_).Evolve(B_,s.x)); break;
    case 11: k.value((s.x*A_).Evolve(B_,s.x)); break;
    default: k.value((squids::iCommutator(A_,B_)+squids::ACommutator(A_,B_))); break;
  }
#endif
}
#undef A_
#undef B_

// continuation of the reference evaluation: unfused, into a fresh temporary
struct RefK{
  SU_vector& r;
  explicit RefK(SU_vector& r_):r(r_){}
  template<class P> void operator()(const P& p) const{
    typedef squids::detail::EvaluationProxy<P> Base;
    SU_vector tmp=static_cast<const Base&>(p).operator SU_vector();   // const& overload: fresh vector + compute
    r=std::move(tmp);
  }
  void value(SU_vector&& v) const{ r=std::move(v); }
};

int stmt_exec(Ctx& c,const Stmt& s){
  SU_vector& A=c.slot[s.a.slot].v();
  SU_vector& B=c.slot[s.b.slot].v();
  return lib_call(c,[&](){
    switch(s.flags){
      case 0: build(A,B,s,Apply<0>(c,s)); break;
#if STMT_KIND!=11
      case 1: build(A,B,s,Apply<1>(c,s)); break;
      case 2: build(A,B,s,Apply<2>(c,s)); break;
      case 3: build(A,B,s,Apply<3>(c,s)); break;
      case 4: build(A,B,s,Apply<4>(c,s)); break;
      case 6: build(A,B,s,Apply<6>(c,s)); break;
      case 7: build(A,B,s,Apply<7>(c,s)); break;
      case 5: build(A,B,s,Apply<4>(c,s)); break;   // NoAlias|Aligned is run as Aligned only (keeps the instantiation count down)
#endif
      default: build(A,B,s,Apply<0>(c,s)); break;
    }
  });
}

// reference: same expression on copies a,b (lvalues, no aliasing), result into a fresh vector
int stmt_ref(Ctx& c,const Stmt& s0,const SU_vector& a,const SU_vector& b,SU_vector& result){
  Stmt s=s0; s.a.cat=CAT_LVALUE; s.b.cat=CAT_LVALUE;
#if STMT_KIND==11
  if(s.nest==8) s.nest=3;
#endif
  return lib_call(c,[&](){
    SU_vector ca(a),cb(b);
    build(ca,cb,s,RefK(result));
  });
}

struct Reg{ Reg(){ stmt_table[STMT_KIND]=stmt_exec; ref_table[STMT_KIND]=stmt_ref; } } reg;

}
}
