// vecsim operations, part 1: constructors, copies, moves, assignments, element writes.
#include "vs_exec.h"

namespace vs{

static bool is_square_len(long n){ return n==4||n==9||n==16||n==25||n==36; }

void Exec::op_construct(const Json& o,const std::string& op){
  int t=slot_of(o,"t");
  if(alive(t)){ skip("target alive"); return; }
  long d=o["d"].as_int(3);
  MVec& m=c.mv[t];
  Slot& sl=c.slot[t];
  memset(sl.mem,(int)(o["junk"].as_int(0xff)&0xff),sizeof sl.mem);   // whatever the object's memory held before: a constructor must not depend on it
  std::string sig=op;
  if(op=="default"){
    begin(op,"C15");
    int rc=lib_call(c,[&]{ new(sl.mem) SU_vector(); });
    bool fired=end();
    int st=settle(rc,fired,false,"C08","C08",sig);
    if(st==ST_DONE){ sl.alive=true; m=MVec(); m.alive=true; }
    shp(op); check_all(c,"C08",sig); return;
  }
  if(op=="sized"){
    if(d<=0||d>9){ skip("dimension outside the window"); return; }
    bool bad=(d==1||d>6);
    begin(op,bad?"C14":"C15");
    int rc=lib_call(c,[&]{ new(sl.mem) SU_vector((unsigned)d); });
    bool fired=end();
    int st=settle(rc,fired,bad,"C08","C14",sig+":d"+std::to_string(d));
    if(st==ST_DONE){ sl.alive=true; m=MVec(); m.alive=true; m.kind=K_OWNED; m.dim=(unsigned)d; m.c.assign(d*d,0.0); }
    shp(op); shp(d); check_all(c,bad?"C14":"C08",sig); return;
  }
  if(op=="ext"){
    int b=buf_of(o);
    if(d<=0||d>9){ skip("dimension outside the window"); return; }
    bool bad=(d==1||d>6);
    if(!bad && !buffer_free_for(b,(unsigned)d,-1)){ skip("buffer shared with another dimension"); return; }
    begin(op,bad?"C14":"C15");
    int rc=lib_call(c,[&]{ new(sl.mem) SU_vector((unsigned)d,c.bufptr(b)); });
    bool fired=end();
    int st=settle(rc,fired,bad,"C08","C14",sig+":d"+std::to_string(d));
    if(st==ST_DONE){ sl.alive=true; m=MVec(); m.alive=true; m.kind=K_EXT; m.dim=(unsigned)d; m.buf=b; }
    shp(op); shp(d); check_all(c,bad?"C14":"C08",sig); return;
  }
  if(op=="list"){
    long n=o["n"].as_int(9);
    if(n<=0||n>64){ skip("length outside the window"); return; }
    bool bad=!is_square_len(n);
    std::vector<double> vals=gen_values((uint64_t)o["vs"].as_int(1),(int)o["vc"].as_int(0),(unsigned)n);
    begin(op,bad?"C14":"C15");
    int rc=lib_call(c,[&]{ new(sl.mem) SU_vector(vals); });
    bool fired=end();
    int st=settle(rc,fired,bad,"C08","C14",sig+(bad?":bad-length":""));
    if(st==ST_DONE){ sl.alive=true; m=MVec(); m.alive=true; m.kind=K_OWNED; m.dim=(unsigned)std::lround(std::sqrt((double)n)); m.c=vals; }
    shp(op); shp(n); check_all(c,bad?"C14":"C08",sig); return;
  }
  if(op=="matrix"){
    long r=o["r"].as_int(3),cc=o["c"].as_int(3);
    if(r<=0||cc<=0||r>8||cc>8){ skip("shape outside the window"); return; }
    bool bad=(r!=cc||r==1||r>6);
    gsl_matrix_complex* M=gsl_matrix_complex_alloc(r,cc);
    std::vector<double> vals=gen_values((uint64_t)o["vs"].as_int(1),(int)o["vc"].as_int(1),(unsigned)(2*r*cc));
    for(long i=0;i<r;i++) for(long j=0;j<cc;j++){
      gsl_complex z;
      if(r==cc){ long a=i<j?i:j,b=i<j?j:i; double re=vals[2*(a*cc+b)],im=(i==j)?0.0:vals[2*(a*cc+b)+1]; if(i>j) im=-im; GSL_SET_COMPLEX(&z,re,im); }
      else GSL_SET_COMPLEX(&z,vals[2*(i*cc+j)],vals[2*(i*cc+j)+1]);
      gsl_matrix_complex_set(M,i,j,z);
    }
    bool use_uptr=o["uptr"].as_bool(false);
    begin(op,bad?"C14":"C15");
    int rc=lib_call(c,[&]{
      if(use_uptr){ std::unique_ptr<gsl_matrix_complex,void(*)(gsl_matrix_complex*)> up(M,gsl_matrix_complex_free); M=0; new(sl.mem) SU_vector(std::move(up)); }
      else new(sl.mem) SU_vector(M);
    });
    bool fired=end();
    if(M) gsl_matrix_complex_free(M);
    int st=settle(rc,fired,bad,"C08","C14",sig+(bad?":bad-shape":""));
    if(st==ST_DONE){ sl.alive=true; m=MVec(); m.alive=true; adopt(c,t,"C08"); }   // values are a C01 matter: adopted, not judged
    shp(op); shp(r*10+cc); check_all(c,bad?"C14":"C08",sig); return;
  }
  if(op=="factory"){
    std::string which=o["which"].as_str("gen");
    long i=o["i"].as_int(0);
    if(d<=0||d>9||i<0){ skip("argument outside the window"); return; }
    bool bad=(d==1||d>6);
    if(!bad){ if(which=="gen") bad=(i>=d*d); else if(which!="ident") bad=(i>=d); }
    begin(op,bad?"C14":"C15");
    int rc=lib_call(c,[&]{
      if(which=="proj") new(sl.mem) SU_vector(SU_vector::Projector((unsigned)d,(unsigned)i));
      else if(which=="ident") new(sl.mem) SU_vector(SU_vector::Identity((unsigned)d));
      else if(which=="pos") new(sl.mem) SU_vector(SU_vector::PosProjector((unsigned)d,(unsigned)i));
      else if(which=="neg") new(sl.mem) SU_vector(SU_vector::NegProjector((unsigned)d,(unsigned)i));
      else new(sl.mem) SU_vector(SU_vector::Generator((unsigned)d,(unsigned)i));
    });
    bool fired=end();
    int st=settle(rc,fired,bad,"C08","C14",sig+":"+which+(bad?":bad-arg":""));
    if(st==ST_DONE){
      sl.alive=true; m=MVec(); m.alive=true;
      if(which=="gen"){ m.kind=K_OWNED; m.dim=(unsigned)d; m.c.assign(d*d,0.0); m.c[i]=1.0; }
      else adopt(c,t,"C08");
    }
    shp(op); shp(which); shp(d); check_all(c,bad?"C14":"C08",sig); return;
  }
  if(op=="make_aligned"){
    if(d<=0||d>9){ skip("dimension outside the window"); return; }
    bool bad=(d==1||d>6);
    bool zero=o["zero"].as_bool(true);
    begin(op,bad?"C14":"C15");
    int rc=lib_call(c,[&]{ new(sl.mem) SU_vector(SU_vector::make_aligned((unsigned)d,zero)); });
    bool fired=end();
    int st=settle(rc,fired,bad,"C08","C14",sig+":d"+std::to_string(d));
    if(st==ST_DONE){
      sl.alive=true; m=MVec(); m.alive=true; m.kind=K_OWNED; m.dim=(unsigned)d; m.c.assign(d*d,0.0);
      if(!zero){ // contents unspecified: the user writes every component before use
        std::vector<double> vals=gen_values((uint64_t)o["vs"].as_int(1),(int)o["vc"].as_int(0),(unsigned)(d*d));
        for(long k=0;k<d*d;k++) sl.v()[(unsigned)k]=vals[k];
        m.c=vals;
      }
      Obs ob=observe(c,t);
      if(!ob.aligned) violation(c,"C15","model:not-aligned",sig,"make_aligned returned storage that is not optimally aligned");
    }
    shp(op); shp(d); check_all(c,bad?"C14":"C08",sig); return;
  }
  skip("unknown constructor");
}

void Exec::op_copy_move_ctor(const Json& o,bool move){
  int t=slot_of(o,"t"),s=slot_of(o,"s");
  if(alive(t)||!alive(s)||t==s){ skip("slots"); return; }
  if(!move && c.mv[s].moved_from){ skip("copy of a moved-from vector"); return; }
  std::string sig=std::string(move?"move_ctor:":"copy_ctor:")+kd(s).substr(0,1);
  MVec src=c.mv[s]; std::vector<double> sv=mvals(c,s);
  begin(move?"move_ctor":"copy_ctor","C15");
  int rc=lib_call(c,[&]{ if(move) new(c.slot[t].mem) SU_vector(std::move(c.slot[s].v())); else new(c.slot[t].mem) SU_vector(c.slot[s].v()); });
  bool fired=end();
  int st=settle(rc,fired,false,"C08","C08",sig);
  if(st==ST_DONE){
    c.slot[t].alive=true; MVec& m=c.mv[t]; m=MVec(); m.alive=true;
    if(!move){
      if(src.kind!=K_EMPTY){ m.kind=K_OWNED; m.dim=src.dim; m.c=sv; }
    }else{
      m.kind=src.kind; m.dim=src.dim; m.buf=src.buf; if(src.kind==K_OWNED) m.c=sv;
      if(!adopt(c,s,"C08")) return;
      c.mv[s].moved_from=true;
      if(src.kind==K_OWNED){ nontrivial=true; c.ctr->add("probe_move_theft"); if(c.mv[s].kind!=K_EMPTY) c.ctr->add("probe_moved_from_not_empty"); }
    }
  }
  shp(sig); check_all(c,"C08",sig);
}

void Exec::op_destroy(const Json& o){
  int t=slot_of(o,"t");
  if(!alive(t)){ skip("dead"); return; }
  std::string sig="destroy:"+kd(t);
  begin("destroy","C15");
  int rc=lib_call(c,[&]{ c.slot[t].v().~SU_vector(); });
  end();
  c.slot[t].alive=false; c.mv[t]=MVec();
  if(rc!=CALL_OK) violation(c,"C15","exc:destructor-threw",sig,"a destructor threw");
  shp(sig); check_all(c,"C08",sig);
}

void Exec::op_assign(const Json& o,bool move){
  int t=slot_of(o,"t"),s=slot_of(o,"s");
  if(!alive(t)||!alive(s)){ skip("slots"); return; }
  if(!move && c.mv[s].moved_from && s!=t){ skip("copy of a moved-from vector"); return; }
  MVec& mt=c.mv[t]; MVec src=c.mv[s]; std::vector<double> sv=mvals(c,s);
  std::string sig=std::string(move?"move_assign:":"copy_assign:")+kd(t).substr(0,1)+"<-"+(s==t?"self":kd(s).substr(0,1));
  bool expect_throw=false;
  if(s!=t && mt.kind==K_EXT && msize(mt)!=msize(src)) expect_throw=true;
  bool resize=(s!=t && mt.kind!=K_EXT && msize(mt)!=msize(src));
  begin(move?"move_assign":"copy_assign","C15");
  int rc=lib_call(c,[&]{ if(move) c.slot[t].v()=std::move(c.slot[s].v()); else c.slot[t].v()=c.slot[s].v(); });
  bool fired=end();
  // a source of another size (an empty one included) assigned onto a view of user storage must be rejected: the assignment-time size policy (C14);
  // letting it through also un-binds or replaces the user's storage silently, which is what a C08 plan is looking for
  int st=settle(rc,fired,expect_throw,"C08",expect_throw?(plan_prop=="C08"?"C08":"C14"):"C08",sig+(expect_throw?":view-size":""));
  if(st==ST_DONE && s!=t){
    if(mt.kind==K_EXT){
      mset(c,t,sv);                                   // external target: the buffer receives the values
      if(move){ if(!adopt(c,s,"C08")) return; c.mv[s].moved_from=true; }
    }else if(!move){
      if(src.kind==K_EMPTY){ mt.kind=K_EMPTY; mt.dim=0; mt.c.clear(); }
      else{ mt.kind=K_OWNED; mt.dim=src.dim; mt.buf=-1; mt.c=sv; }
    }else{
      mt.kind=src.kind; mt.dim=src.dim; mt.buf=src.buf; mt.c=(src.kind==K_OWNED)?sv:std::vector<double>();
      if(!adopt(c,s,"C08")) return;
      c.mv[s].moved_from=true;
      if(src.kind==K_OWNED){ nontrivial=true; c.ctr->add("probe_move_theft"); }
    }
    mt.moved_from=false;
    if(resize){ nontrivial=true; c.ctr->add("probe_resize"); if(nallocs[c.opi]==0 && !move && src.kind!=K_EMPTY) c.ctr->add("probe_cache_hit"); }
  }else if(st==ST_FAULTED){
    if(!adopt(c,t,"C16",true)) return;
    if(move && s!=t){ if(!adopt(c,s,"C16")) return; c.mv[s].moved_from=true; }
  }
  shp(sig); check_all(c,"C08",sig);
}

void Exec::op_set_backing(const Json& o){
  int t=slot_of(o,"t"); int b=buf_of(o);
  if(!alive(t)||c.mv[t].kind==K_EMPTY||c.mv[t].moved_from){ skip("target"); return; }
  MVec& m=c.mv[t];
  if(!buffer_free_for(b,m.dim,t)){ skip("buffer shared with another dimension"); return; }
  std::string sig="set_backing:"+kd(t);
  begin("set_backing","C15");
  int rc=lib_call(c,[&]{ c.slot[t].v().SetBackingStore(c.bufptr(b)); });
  bool fired=end();
  int st=settle(rc,fired,false,"C08","C08",sig);
  if(st==ST_DONE){ m.kind=K_EXT; m.buf=b; m.c.clear(); }
  shp(sig); check_all(c,"C08",sig);
}

void Exec::op_write(const Json& o,const std::string& op){
  int t=slot_of(o,"t");
  if(!usable(t)){ skip("target"); return; }
  MVec& m=c.mv[t]; unsigned n=m.dim*m.dim;
  std::vector<double> vals=mvals(c,t);
  std::string sig=op+":"+kd(t);
  begin(op,"C15");
  int rc;
  if(op=="set_elem"){
    unsigned i=(unsigned)(o["i"].as_int(0)%n); double x=o["x"].as_num(1.0);
    rc=lib_call(c,[&]{ c.slot[t].v()[i]=x; }); vals[i]=x;
  }else if(op=="set_all"){
    double x=o["x"].as_num(0.0);
    rc=lib_call(c,[&]{ c.slot[t].v().SetAllComponents(x); }); vals.assign(n,x);
  }else{
    vals=gen_values((uint64_t)o["vs"].as_int(1),(int)o["vc"].as_int(0),n);
    rc=lib_call(c,[&]{ for(unsigned i=0;i<n;i++) c.slot[t].v()[i]=vals[i]; });
  }
  bool fired=end();
  if(settle(rc,fired,false,"C08","C08",sig)==ST_DONE) mset(c,t,vals);
  shp(sig); check_all(c,"C08",sig);
}

void Exec::op_compound(const Json& o){
  int t=slot_of(o,"t"),s=slot_of(o,"s");
  if(!usable(t)||!usable(s)){ skip("operands"); return; }
  bool plus=o["sign"].as_str("+")!="-";
  MVec& mt=c.mv[t]; MVec& ms=c.mv[s];
  bool bad=(mt.dim!=ms.dim);
  std::string sig=std::string(plus?"compound+=:":"compound-=:")+kd(t)+","+(s==t?"self":kd(s));
  std::vector<double> tv=mvals(c,t),sv=mvals(c,s);
  begin(plus?"compound+=":"compound-=",bad?"C14":"C15");
  int rc=lib_call(c,[&]{ if(plus) c.slot[t].v()+=c.slot[s].v(); else c.slot[t].v()-=c.slot[s].v(); });
  bool fired=end();
  int st=settle(rc,fired,bad,"C08","C14",sig);
  if(st==ST_DONE){ for(unsigned i=0;i<tv.size();i++) tv[i]=plus?tv[i]+sv[i]:tv[i]-sv[i]; mset(c,t,tv); }
  shp(sig); check_all(c,bad?"C14":"C08",sig);
}

void Exec::op_scale(const Json& o){
  int t=slot_of(o,"t");
  if(!usable(t)){ skip("target"); return; }
  bool mul=o["sign"].as_str("*")!="/"; double x=o["x"].as_num(2.0);
  if(!mul && x==0) x=0.5;
  std::string sig=std::string(mul?"scale*=:":"scale/=:")+kd(t);
  std::vector<double> tv=mvals(c,t);
  begin(mul?"scale*=":"scale/=","C15");
  int rc=lib_call(c,[&]{ if(mul) c.slot[t].v()*=x; else c.slot[t].v()/=x; });
  bool fired=end();
  if(settle(rc,fired,false,"C08","C08",sig)==ST_DONE){ for(unsigned i=0;i<tv.size();i++) tv[i]=mul?tv[i]*x:tv[i]/x; mset(c,t,tv); }
  shp(sig); check_all(c,"C08",sig);
}

}
