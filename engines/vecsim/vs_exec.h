// vecsim: the plan executor (operation catalogue with the RefVec transition rules of DESIGN.md appendix A).
#ifndef VERIF_VS_EXEC_H
#define VERIF_VS_EXEC_H
#include "vs_model.h"
#include "../../sim/json.h"
#include <gsl/gsl_matrix.h>
#include <gsl/gsl_complex_math.h>
#include <thread>
#include <mutex>
#include <condition_variable>
#include <functional>
#include <sstream>
#include <memory>

namespace vs{

using verif::Json;

// helper thread with its own block cache: reference evaluations do not disturb the cache of the run thread
struct Oracle{
  std::thread th; std::mutex m; std::condition_variable cv;
  std::function<void()> job; bool has,done,quit,started;
  Oracle():has(false),done(false),quit(false),started(false){}
  void loop(){
    verif::alloc_tag(-2);
    std::unique_lock<std::mutex> lk(m);
    while(true){
      cv.wait(lk,[&]{ return has||quit; });
      if(has){ lk.unlock(); job(); lk.lock(); has=false; done=true; cv.notify_all(); }
      else if(quit) break;
    }
  }
  void run(std::function<void()> f){
    if(!started){ started=true; th=std::thread([this]{ loop(); }); }
    std::unique_lock<std::mutex> lk(m);
    job=f; has=true; done=false; cv.notify_all();
    cv.wait(lk,[&]{ return done; });
  }
  void stop(){
    if(!started) return;
    run([]{ verif::alloc_scope(1); SU_vector::clear_mem_cache(); verif::alloc_scope(0); });
    { std::unique_lock<std::mutex> lk(m); quit=true; cv.notify_all(); }
    th.join(); started=false;
  }
};

enum Settle{ ST_DONE=0, ST_THREW=1, ST_FAULTED=2, ST_VIOLATION=3 };

struct Exec{
  Ctx c; Oracle oracle;
  int fault_op; long fault_k;          // planned allocation fault (-1 = none)
  std::vector<long> nallocs;            // library allocations per operation (fault-free pass)
  uint64_t shape; bool nontrivial; long skipped,executed;
  bool count_only;
  std::string plan_prop;                // property of the plan: a crash inside an operation of that property's domain is attributed to it
  std::vector<std::string> opkinds;     // kind of every executed operation, by index

  Exec():fault_op(-1),fault_k(0),shape(1469598103934665603ULL),nontrivial(false),skipped(0),executed(0),count_only(false){}

  void shp(const std::string& s){ shape=verif::fnv1a(s,shape); }
  void shp(long v){ shape=verif::fnv1a(&v,sizeof v,shape); }

  // ---- bookkeeping around one library operation
  void begin(const std::string& kind,const char* attr){
    c.opkind=kind; c.attr=c.fault_fired_in_run?"C16":attr;
    if(c.attr=="C15"){
      if(plan_prop=="C09" && kind.compare(0,4,"stmt")==0) c.attr="C09";
      else if(plan_prop=="C08" && (kind.compare(0,4,"stmt")==0||kind=="copy_ctor"||kind=="move_ctor"||kind=="copy_assign"||kind=="move_assign"||kind=="set_backing"||kind=="destroy")) c.attr="C08";
    }
    verif::alloc_tag(c.opi);
    if((int)opkinds.size()<=c.opi) opkinds.resize(c.opi+1);
    if(c.opi>=0) opkinds[c.opi]=kind;
    bool arm=(c.opi==fault_op && fault_k>0);
    if(arm && c.attr!="C14") c.attr="C16";
    if(c.trace_ops){ printf("O %d %s %s\n",c.opi,kind.c_str(),c.attr.c_str()); fflush(stdout); }
    verif::alloc_fail_at(arm?fault_k:0);
  }
  // returns true if the planned fault fired in this operation
  bool end(){
    bool fired=verif::alloc_fault_fired()!=0;
    long n=verif::alloc_count();
    verif::alloc_fail_at(0);
    if((int)nallocs.size()<=c.opi) nallocs.resize(c.opi+1,0);
    nallocs[c.opi]=n;
    if(fired){ c.fault_fired_in_run=true; c.ctr->add("fault_bad_alloc_fired"); c.ctr->add("fault_bad_alloc_in_"+c.opkind); nontrivial=true; }
    executed++;
    c.ctr->add("cover_op_"+c.opkind);
    return fired;
  }
  void skip(const char* why){ skipped++; c.tr->ev("op#%d skipped (%s)",c.opi,why); }

  // compare the outcome of the call with the expectation. adopt_t / adopt_list: slots whose post-state is
  // unspecified after an injected allocation failure (target) or a move (consumed operands).
  int settle(int rc,bool fired,bool expect_throw,const std::string& prop,const std::string& exc_prop,const std::string& sig,bool query=false){
    if(rc==CALL_BADALLOC){
      if(!fired){ violation(c,prop,"exc:unexpected-bad-alloc",sig,"std::bad_alloc without an injected fault"); return ST_VIOLATION; }
      c.tr->ev("op#%d %s: injected bad_alloc propagated",c.opi,c.opkind.c_str());
      return ST_FAULTED;
    }
    if(rc==CALL_EXCEPTION){
      if(expect_throw){ c.ctr->add("probe_exception"); nontrivial=true; c.tr->ev("op#%d %s: rejected as expected",c.opi,c.opkind.c_str()); return ST_THREW; }
      if(query){ c.tr->ev("op#%d %s: query threw",c.opi,c.opkind.c_str()); return ST_THREW; }
      violation(c,exc_prop,"exc:unexpected",sig,"threw \""+c.last_what+"\" although the operation is valid"); return ST_VIOLATION;
    }
    if(fired && !query){
      violation(c,"C16","fault:swallowed",sig,"an injected std::bad_alloc did not propagate out of the operation"); return ST_VIOLATION;
    }
    if(expect_throw){
      violation(c,exc_prop,"exc:missing",sig,"no exception although the arguments must be rejected"); return ST_VIOLATION;
    }
    return ST_DONE;
  }

  // ---- small decoding helpers
  static int slot_of(const Json& o,const char* k){ long v=o[k].as_int(0); if(v<0) v=0; return (int)(v%NSLOTS); }
  static int buf_of(const Json& o){ long v=o["buf"].as_int(0); if(v<0) v=0; return (int)(v%NBUFS); }
  bool alive(int s){ return c.mv[s].alive; }
  bool usable(int s){ return c.mv[s].alive && !c.mv[s].moved_from && c.mv[s].kind!=K_EMPTY; }   // may be read as an operand
  // a user buffer may be shared only by vectors of one dimension (full sharing, never partial overlap)
  bool buffer_free_for(int b,unsigned d,int except){
    // vectors of different dimensions may be bound to one buffer (they start at the same element, the smaller is a prefix of the larger): the model
    // keeps external values in the buffer, so whatever one writes the other sees. Operations between them are rejected by the library (sizes differ).
    (void)except;
    return d*d+c.uoff[b]<=BUFLEN;
  }
  std::string kd(int s){
    if(!c.mv[s].alive) return "dead";
    MVec& m=c.mv[s];
    std::string r=m.kind==K_EMPTY?"E":(m.kind==K_OWNED?"O":"X"); r+=std::to_string(m.dim); if(m.moved_from) r+="m"; return r;
  }

  void op_construct(const Json& o,const std::string& op);
  void op_copy_move_ctor(const Json& o,bool move);
  void op_destroy(const Json& o);
  void op_assign(const Json& o,bool move);
  void op_set_backing(const Json& o);
  void op_write(const Json& o,const std::string& op);
  void op_compound(const Json& o);
  void op_scale(const Json& o);
  void op_stmt(const Json& o);
  void op_query(const Json& o,const std::string& op);
  void op_cache(const Json& o,const std::string& op);
  void op_container(const Json& o);
  void run_op(const Json& o);
  void finish();
  void leak_check();   // after the run thread has exited (its thread-local scratch objects are destroyed then)
};

}
#endif
