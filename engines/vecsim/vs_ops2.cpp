// vecsim operations, part 2: expression statements (C09), queries, cache operations, end-of-run quiescence.
#include "vs_exec.h"
#include <gsl/gsl_blas.h>

namespace vs{

const char* const expr_names[E_NKINDS]={"add","sub","neg","smul","muls","icomm","acomm","evol","fevol","eprod","eop","nested"};
stmt_fn stmt_table[E_NKINDS];
ref_fn ref_table[E_NKINDS];

static bool is_unary(int e){ return e==E_NEG||e==E_SMUL||e==E_MULS||e==E_FEVOL; }
static bool is_elementwise(int e){ return e==E_ADD||e==E_SUB||e==E_NEG||e==E_SMUL||e==E_MULS||e==E_EPROD||e==E_EOP; }
static bool has_move_overload(int e,int which){ // which: 0 = operand a, 1 = operand b
  switch(e){
    case E_ADD: case E_EPROD: case E_EOP: return true;
    case E_SUB: case E_NEG: case E_SMUL: case E_MULS: return which==0;
    default: return false;
  }
}

void Exec::op_stmt(const Json& o){
  Stmt s; memset(&s,0,sizeof s);
  static const char* hows[]={"=","+=","-=","ctor"};
  std::string hs=o["how"].as_str("=");
  s.how=HOW_ASSIGN; for(int i=0;i<4;i++) if(hs==hows[i]) s.how=i;
  std::string es=o["expr"].as_str("add");
  s.expr=E_ADD; for(int i=0;i<E_NKINDS;i++) if(es==expr_names[i]) s.expr=i;
  s.target=slot_of(o,"t"); s.a.slot=slot_of(o,"a"); s.b.slot=slot_of(o,"b");
  s.a.cat=(int)(o["ca"].as_int(0)%3); s.b.cat=(int)(o["cb"].as_int(0)%3);
  s.x=o["x"].as_num(0.5); s.fn=(int)(o["fn"].as_int(0)&1); s.nest=(int)(o["nest"].as_int(0)%12);
  int want_flags=(int)(o["flags"].as_int(0)&7);
  if(is_unary(s.expr)){ s.b=s.a; }
  if(s.expr==E_NESTED){ s.a.cat=CAT_LVALUE; s.b.cat=CAT_LVALUE; if(s.nest==8) s.a.cat=CAT_MOVE; }
  // categories without a dedicated overload behave as lvalues (binding to const&): normalise for the model
  if(s.a.cat==CAT_MOVE && s.expr!=E_NESTED && !has_move_overload(s.expr,0)) s.a.cat=CAT_LVALUE;
  if(s.b.cat==CAT_MOVE && !has_move_overload(s.expr,1)) s.b.cat=CAT_LVALUE;
  if(s.expr==E_ICOMM && s.b.cat==CAT_TEMP) s.b.cat=CAT_LVALUE;
  if(s.expr==E_ACOMM && s.a.cat==CAT_TEMP) s.a.cat=CAT_LVALUE;
  if((s.expr==E_EVOL||s.expr==E_FEVOL) && s.b.cat!=CAT_LVALUE) s.b.cat=CAT_LVALUE;
  if(s.expr==E_EOP && s.fn==1 && s.b.cat==CAT_MOVE) s.b.cat=CAT_TEMP;
  if(s.expr==E_EOP && s.fn==1 && s.a.cat==CAT_MOVE && s.b.cat==CAT_TEMP) s.a.cat=CAT_TEMP;
  if((s.expr==E_EPROD||s.expr==E_EOP) && s.a.cat!=CAT_LVALUE && s.b.cat!=CAT_LVALUE && s.a.cat!=s.b.cat){ s.b.cat=s.a.cat; }
  int A=s.a.slot,B=s.b.slot,T=s.target;
  if(!usable(A)||!usable(B)){ skip("operands"); return; }
  if(s.a.cat==CAT_MOVE && s.b.cat==CAT_MOVE && A==B){ s.b.cat=CAT_LVALUE; if(s.expr==E_EPROD||s.expr==E_EOP){ s.a.cat=CAT_LVALUE; } }
  if(s.how==HOW_CTOR){ if(alive(T)){ skip("target alive"); return; } }
  else{
    if(!alive(T)){ skip("target dead"); return; }
    if(s.how!=HOW_ASSIGN && !usable(T)){ skip("increment of an empty or moved-from vector"); return; }
  }
  MVec ma=c.mv[A],mb=c.mv[B];
  // -(std::move(x)+b) with x on a user buffer computes inside that buffer (the temporary inherits it by move): legal, but the
  // model does not follow intermediate temporaries, so the form is run with an lvalue operand instead
  if(s.expr==E_NESTED && s.nest==8 && (ma.kind==K_EXT||A==B||(s.how!=HOW_CTOR&&A==T))){ s.nest=3; s.a.cat=CAT_LVALUE; }   // nor may the consumed vector be named twice in one statement
  std::vector<double> av=mvals(c,A),bv=mvals(c,B);
  bool binary=!is_unary(s.expr);
  bool operand_mismatch=binary && ma.dim!=mb.dim;
  unsigned rdim=(s.expr==E_ADD && s.a.cat==CAT_LVALUE && s.b.cat!=CAT_LVALUE)?mb.dim:ma.dim;   // a + rvalue b puts b first
  unsigned rsize=rdim*rdim;
  MVec mt0; std::vector<double> tv;
  if(s.how!=HOW_CTOR){ mt0=c.mv[T]; tv=mvals(c,T); }
  bool target_throw=false;
  if(!operand_mismatch && s.how!=HOW_CTOR){
    unsigned tsz=msize(mt0);
    if(s.how==HOW_ASSIGN){ if(mt0.kind==K_EXT && tsz!=rsize) target_throw=true; }
    else if(tsz!=rsize) target_throw=true;
  }
  bool expect_throw=operand_mismatch||target_throw;
  // prepared evolution buffer (harness memory of exactly the documented size, guarded)
  double* ebuf=0;
  if(s.expr==E_FEVOL){
    // operand "b" of the plan names the evolution operator; it must have a's dimension
    int OPS=slot_of(o,"b");
    if(!usable(OPS)||c.mv[OPS].dim!=ma.dim){ skip("evolution operator"); return; }
    ebuf=verif::user_buffer_alloc(ma.dim*(ma.dim-1),100);
    int rc0=lib_call(c,[&]{ c.slot[OPS].v().PrepareEvolve(ebuf,s.x); });
    if(rc0!=CALL_OK){ verif::user_buffer_free(ebuf); skip("PrepareEvolve threw"); return; }
    s.evolbuf=ebuf;
  }
  // alias pattern and the guarantee flags that are true
  Obs oa=observe(c,A),ob=observe(c,B),ot; memset(&ot,0,sizeof ot);
  bool alias_a=false,alias_b=false;
  if(s.how!=HOW_CTOR && c.mv[T].kind!=K_EMPTY){ ot=observe(c,T); alias_a=(ot.addr==oa.addr); alias_b=binary&&(ot.addr==ob.addr); }
  int true_flags=0;
  if(s.how!=HOW_CTOR){
    bool operand_alias=alias_a||alias_b||(T==A&&s.a.cat!=CAT_TEMP)||(T==B&&s.b.cat!=CAT_TEMP&&binary);
    if(!operand_alias) true_flags|=1;
    if(!expect_throw && msize(mt0)==rsize) true_flags|=2;
    if((true_flags&2) && ot.aligned && oa.aligned && (!binary||ob.aligned) && s.a.cat!=CAT_TEMP && s.b.cat!=CAT_TEMP) true_flags|=4;
  }else{
    true_flags=1;   // a vector under construction aliases nothing; sizes/alignment cannot be promised
  }
  s.flags=expect_throw?0:(want_flags&true_flags);
  if(s.expr==E_NESTED) s.flags=0;
  std::string shape_s=std::string("stmt:")+expr_names[s.expr]+(s.expr==E_NESTED?std::to_string(s.nest):"")+":"+hows[s.how]+":t="+(s.how==HOW_CTOR?"new":kd(T))
    +":a="+kd(A)+"/"+std::to_string(s.a.cat)+(binary?":b="+kd(B)+"/"+std::to_string(s.b.cat):"")
    +(T==A&&s.how!=HOW_CTOR?":t=a":"")+(binary&&T==B&&s.how!=HOW_CTOR?":t=b":"")+(binary&&A==B?":a=b":"")+((alias_a||alias_b)&&T!=A&&T!=B?":shared-buffer":"")
    +":f"+std::to_string(s.flags);
  // coarse signature (violation identity); the full shape goes into the trace and the distinct-shape hash
  std::string sig=std::string("stmt:")+expr_names[s.expr]+":"+hows[s.how]+((s.a.cat==CAT_MOVE||(binary&&s.b.cat==CAT_MOVE))?":consuming":"");
  c.tr->ev("op#%d %s",c.opi,shape_s.c_str());
  // reference value: the library's own unfused evaluation on copies, in the oracle thread
  std::vector<double> ref;
  if(!expect_throw){
    int rrc=CALL_OK; std::string rwhat;
    oracle.run([&]{
      SU_vector ra,rb,res;
      int r1=lib_call(c,[&]{ ra=SU_vector(ma.dim); for(unsigned i=0;i<av.size();i++) ra[i]=av[i]; rb=SU_vector(mb.dim); for(unsigned i=0;i<bv.size();i++) rb[i]=bv[i]; });
      if(r1==CALL_OK) r1=ref_table[s.expr](c,s,ra,rb,res);
      if(r1==CALL_OK) lib_call(c,[&]{ ref=res.GetComponents(); });
      rrc=r1; rwhat=c.last_what;
      lib_call(c,[&]{ ra=SU_vector(); rb=SU_vector(); res=SU_vector(); });
    });
    if(rrc!=CALL_OK||ref.size()!=rsize){
      if(ebuf) verif::user_buffer_free(ebuf);
      violation(c,"C09","exc:unexpected",sig+":reference","the plain evaluation of the expression on copies threw \""+rwhat+"\"");
      return;
    }
  }
  // element-wise operations have a definition the model can evaluate itself (one IEEE operation per component, no contraction in any build):
  // the unfused reference must agree with it bit for bit
  if(!expect_throw && is_elementwise(s.expr)){
    for(unsigned i=0;i<rsize;i++){
      double want;
      switch(s.expr){
        case E_ADD: want=av[i]+bv[i]; break;
        case E_SUB: want=av[i]-bv[i]; break;
        case E_NEG: want=-av[i]; break;
        case E_SMUL: case E_MULS: want=s.x*av[i]; break;
        case E_EPROD: want=av[i]*bv[i]; break;
        default: want=(s.fn==0)?AMinus2B()(av[i],bv[i]):MaxAbs()(av[i],bv[i]); break;
      }
      if(!same_value(ref[i],want)){
        if(ebuf) verif::user_buffer_free(ebuf);
        char b[200]; snprintf(b,sizeof b,"component %u of %s evaluated into a fresh temporary is %.17g, the operation's definition gives %.17g",i,expr_names[s.expr],ref[i],want);
        violation(c,"C09","model:value-mismatch",std::string("stmt:")+expr_names[s.expr]+":definition",b); return;
      }
    }
  }
  begin(std::string("stmt:")+expr_names[s.expr],expect_throw?"C14":"C15");
  long blocks_a=oa.block,blocks_b=ob.block;
  int rc=stmt_table[s.expr](c,s);
  bool fired=end();
  if(ebuf) verif::user_buffer_free(ebuf);
  // a statement that must be rejected - operands of different dimension, or a result that does not fit a target which cannot be resized (user
  // storage, or any target of += / -=) - is a C14 matter; an exception out of a valid statement is a C09 matter
  int st=settle(rc,fired,expect_throw,"C09",expect_throw?"C14":"C09",sig+(target_throw?":target-size":""));
  bool consumed_a=(s.a.cat==CAT_MOVE),consumed_b=(binary&&s.b.cat==CAT_MOVE);
  if(st==ST_DONE){
    MVec& mt=c.mv[T];
    std::vector<double> nv(rsize);
    for(unsigned i=0;i<rsize;i++) nv[i]=(s.how==HOW_INC)?tv[i]+ref[i]:(s.how==HOW_DEC?tv[i]-ref[i]:ref[i]);
    if(s.how==HOW_CTOR){ mt=MVec(); mt.alive=true; }
    bool was_ext=(s.how!=HOW_CTOR && mt0.kind==K_EXT);
    if(was_ext){ mset(c,T,nv); }
    else{
      // kind: owned, or external when a consumed operand's user buffer was taken over (adopt the kind, the value is exact)
      Obs on=observe(c,T);
      if(on.size!=rsize||on.dim!=rdim){ violation(c,"C09","model:value-mismatch",sig+":dimension","target has dimension "+std::to_string(on.dim)+", expected "+std::to_string(rdim)); return; }
      if(on.range==verif::RANGE_USER_BUFFER && on.ubuf>=0 && on.ubuf<NBUFS && ((consumed_a&&ma.kind==K_EXT&&ma.buf==on.ubuf)||(consumed_b&&mb.kind==K_EXT&&mb.buf==on.ubuf))){
        mt.kind=K_EXT; mt.dim=rdim; mt.buf=on.ubuf; mt.c.clear(); mset(c,T,nv);
      }else{ mt.kind=K_OWNED; mt.dim=rdim; mt.buf=-1; mt.c=nv; }
      if(on.range==verif::RANGE_LIB_BLOCK && ((consumed_a&&on.block==blocks_a)||(consumed_b&&on.block==blocks_b))){ nontrivial=true; c.ctr->add("probe_stmt_theft"); }
      if(s.how==HOW_CTOR||msize(mt0)!=rsize){ nontrivial=true; c.ctr->add("probe_resize"); if(nallocs[c.opi]==0) c.ctr->add("probe_no_alloc_resize"); }
    }
    mt.moved_from=false;
    if(consumed_a && A!=T){ if(!adopt(c,A,"C08")) return; c.mv[A].moved_from=true; }
    if(consumed_b && B!=T){ if(!adopt(c,B,"C08")) return; c.mv[B].moved_from=true; }
    if(consumed_a||consumed_b){
      // probe: a consumed operand that still reports the target's element address
      Obs on=observe(c,T);
      if(consumed_a&&A!=T){ Obs x=observe(c,A); if(x.size&&x.addr==on.addr) c.ctr->add("probe_consumed_operand_aliases_target"); }
    }
    if(alias_a||alias_b||T==A||(binary&&T==B)){ c.ctr->add("probe_alias_stmt"); if(!is_elementwise(s.expr)) c.ctr->add("probe_alias_nonelementwise"); }
    if(s.flags) c.ctr->add("probe_guarantee_flags");
    if(s.flags&4) c.ctr->add("probe_aligned_flag");
  }else if(st==ST_THREW && s.expr==E_NESTED && consumed_a && !operand_mismatch && A!=T){
    // the value of the nested expression is computed (and its rvalue operand consumed) before the assignment rejects the size
    if(!adopt(c,A,"C08")) return; c.mv[A].moved_from=true;
  }else if(st==ST_FAULTED){
    if(s.how==HOW_CTOR){ /* the object was never constructed */ }
    else if(!adopt(c,T,"C16",true)) return;
    if(consumed_a && A!=T){ if(!adopt(c,A,"C16")) return; c.mv[A].moved_from=true; }
    if(consumed_b && B!=T){ if(!adopt(c,B,"C16")) return; c.mv[B].moved_from=true; }
  }
  shp(shape_s);
  check_all(c,operand_mismatch?"C14":"C09",sig);
}

static gsl_matrix_complex* make_unitary(unsigned d,uint64_t seed){
  // a product of a permutation and diagonal phases: exactly unitary, cheap
  gsl_matrix_complex* U=gsl_matrix_complex_calloc(d,d);
  verif::Rng r(seed);
  std::vector<unsigned> perm(d); for(unsigned i=0;i<d;i++) perm[i]=i;
  for(unsigned i=d;i>1;i--){ unsigned j=(unsigned)r.below(i); std::swap(perm[i-1],perm[j]); }
  for(unsigned i=0;i<d;i++){ double ph=r.uniform(0,6.283185307179586); gsl_matrix_complex_set(U,i,perm[i],gsl_complex_polar(1.0,ph)); }
  return U;
}

void Exec::op_query(const Json& o,const std::string& op){
  int a=slot_of(o,"a"),b=slot_of(o,"b");
  std::string sig=op;
  if(op=="eq"){
    if(!alive(a)||!alive(b)){ skip("slots"); return; }
    bool res=false;
    begin(op,"C15");
    int rc=lib_call(c,[&]{ res=(c.slot[a].v()==c.slot[b].v()); });
    bool fired=end();
    if(settle(rc,fired,false,"C08","C08",sig,true)==ST_DONE && usable(a) && usable(b)){
      std::vector<double> av=mvals(c,a),bv=mvals(c,b);
      bool e=(c.mv[a].dim==c.mv[b].dim); if(e) for(unsigned i=0;i<av.size();i++) if(!(av[i]==bv[i])) e=false;
      if(e!=res) violation(c,"C08","model:query-result","eq",std::string("operator== returned ")+(res?"true":"false")+" for vectors whose components are "+(e?"equal":"different"));
    }
    shp(op); check_all(c,"C08",sig); return;
  }
  if(op=="eigen" && alive(a) && !c.mv[a].moved_from && c.mv[a].kind==K_EMPTY){
    // GetEigenSystem() on a vector without storage ends in the library's "not initialized" exception (raised by GetGSLMatrix)
    begin(op,"C15");
    int rc=lib_call(c,[&]{ auto e=c.slot[a].v().GetEigenSystem(true); (void)e; });
    bool fired=end();
    settle(rc,fired,true,"C15","C15","eigen:empty");
    shp("eigen:empty"); check_all(c,"C15",op); return;
  }
  if(op=="getmatrix" && alive(a) && !c.mv[a].moved_from && c.mv[a].kind==K_EMPTY){
    // documented: GetGSLMatrix() on a vector without storage reports an error
    begin(op,"C15");
    int rc=lib_call(c,[&]{ auto m=c.slot[a].v().GetGSLMatrix(); (void)m; });
    bool fired=end();
    settle(rc,fired,true,"C15","C15","getmatrix:empty");
    shp("getmatrix:empty"); check_all(c,"C15",op); return;
  }
  if(!usable(a)){ skip("operand"); return; }
  MVec& ma=c.mv[a]; unsigned d=ma.dim;
  if(op=="dot"){
    if(!usable(b)){ skip("operand"); return; }
    bool bad=(c.mv[b].dim!=d);
    double r=0;
    begin(op,bad?"C14":"C15");
    int rc=lib_call(c,[&]{ r=c.slot[a].v()*c.slot[b].v(); });
    bool fired=end();
    settle(rc,fired,bad,"C15","C14","dot:"+kd(a)+","+kd(b));
    shp(op); check_all(c,bad?"C14":"C15",sig); return;
  }
  if(op=="dot_expr"){
    // scalar product of two expressions: (a+a)*(b-b') style; mismatched dimensions must be rejected like the plain scalar product
    if(!usable(b)){ skip("operand"); return; }
    bool bad=(c.mv[b].dim!=d);
    double r=0; int form=(int)(o["i"].as_int(0)%3);
    begin(op,bad?"C14":"C15");
    int rc=lib_call(c,[&]{
      SU_vector& A=c.slot[a].v(); SU_vector& B=c.slot[b].v();
      switch(form){ case 0: r=(A+A)*(B+B); break; case 1: r=(A*2.0)*(B-B); break; default: r=(-A)*(B*0.5); }
    });
    bool fired=end();
    settle(rc,fired,bad,"C15","C14","dot_expr:"+kd(a).substr(0,1)+","+kd(b).substr(0,1));
    shp(op); check_all(c,bad?"C14":"C15",sig); return;
  }
  if(op=="rotate_m"){
    long dm=o["d"].as_int(d); if(dm<1||dm>7){ skip("matrix size"); return; }
    { std::vector<double> av=mvals(c,a); for(size_t i=0;i<av.size();i++) if(!(std::fabs(av[i])<1e60) || (av[i]!=0 && std::fabs(av[i])<1e-100)){ skip("non-finite, huge or denormal-scale values"); return; } }
    long dc=o.has("c")?o["c"].as_int(dm):dm; if(dc<1||dc>7){ skip("matrix size"); return; }
    bool bad=((unsigned)dm!=d||(unsigned)dc!=d);
    gsl_matrix_complex* U=0;
    if(dc==dm) U=make_unitary((unsigned)dm,(uint64_t)o["vs"].as_int(1));
    else{ // a non-square matrix: only one of its extents may agree with the vector
      U=gsl_matrix_complex_alloc((size_t)dm,(size_t)dc); verif::Rng rr((uint64_t)o["vs"].as_int(1));
      for(long i=0;i<dm;i++) for(long j=0;j<dc;j++) gsl_matrix_complex_set(U,(size_t)i,(size_t)j,gsl_complex_rect(rr.uniform(-1,1),rr.uniform(-1,1)));
    }
    begin(op,bad?"C14":"C15");
    int rc=lib_call(c,[&]{ SU_vector r=c.slot[a].v().Rotate(U); (void)r; });
    bool fired=end();
    gsl_matrix_complex_free(U);
    settle(rc,fired,bad,"C15","C14","rotate_m:"+kd(a)+":m"+std::to_string(dm)+(dc!=dm?"x"+std::to_string(dc):""),!bad);
    shp(op); check_all(c,bad?"C14":"C15",sig); return;
  }
  // the GSL-backed matrix functions iterate (eigen solver, Pade order selection): non-finite or overflowing input is outside their
  // preconditions (values can overflow through arithmetic on the 1e150 category, or underflow in the denormal category) and can make
  // GSL's QR iteration loop for ever
  if(op=="eigen"||op=="utransform_v"||op=="utransform_m"||op=="weighted"||op=="rotate_b"||op=="rotate"||op=="const_ops"){
    std::vector<double> av=mvals(c,a); bool fin=true;
    for(size_t i=0;i<av.size();i++) if(!(std::fabs(av[i])<1e60) || (av[i]!=0 && std::fabs(av[i])<1e-100)) fin=false;
    if((op=="utransform_v"||op=="weighted")&&usable(b)){ std::vector<double> bv=mvals(c,b); for(size_t i=0;i<bv.size();i++) if(!(std::fabs(bv[i])<1e60) || (bv[i]!=0 && std::fabs(bv[i])<1e-100)) fin=false; }
    if(!fin){ skip("non-finite or huge values"); return; }
  }
  if(op=="weighted" && usable(b) && c.mv[b].dim!=d){
    // the weighting operator has another dimension: rejected (by the commutators inside), and until then neither vector is modified
    uint64_t sd=(uint64_t)o["vs"].as_int(1);
    gsl_matrix_complex* V=make_unitary(d,sd); gsl_matrix_complex* W=make_unitary(d,sd+1);
    begin(op,"C14");
    int rc=lib_call(c,[&]{ c.slot[a].v().WeightedRotation(V,c.slot[b].v(),W); });
    bool fired=end();
    gsl_matrix_complex_free(V); gsl_matrix_complex_free(W);
    settle(rc,fired,true,"C15","C14","weighted:"+kd(a)+":yd"+std::to_string(c.mv[b].dim),false);
    shp("weighted:mismatch"); shp(kd(a)); check_all(c,"C14",op); return;
  }
  begin(op,"C15");
  int rc=CALL_OK; bool mutating=false;
  if(op=="getcomps"){
    std::vector<double> got;
    rc=lib_call(c,[&]{ got=c.slot[a].v().GetComponents(); });
    if(rc==CALL_OK){ std::vector<double> av=mvals(c,a); bool same=(got.size()==av.size()); if(same) for(unsigned i=0;i<av.size();i++) if(!same_value(got[i],av[i])) same=false;
      if(!same){ end(); violation(c,"C08","model:query-result","getcomps","GetComponents differs from the stored components"); return; } }
  }else if(op=="getmatrix"){
    rc=lib_call(c,[&]{ auto m=c.slot[a].v().GetGSLMatrix(); (void)m; });
  }else if(op=="real"){ rc=lib_call(c,[&]{ SU_vector r=c.slot[a].v().Real(); (void)r; });
  }else if(op=="imag"){ rc=lib_call(c,[&]{ SU_vector r=c.slot[a].v().Imag(); (void)r; });
  }else if(op=="transpose"){ mutating=true; rc=lib_call(c,[&]{ c.slot[a].v().Transpose(); });
  }else if(op=="rotate"){
    unsigned j=1+(unsigned)(o["j"].as_int(1)%(d-1)); unsigned i=(unsigned)(o["i"].as_int(0)%j);
    double th=o["x"].as_num(0.3),del=o["y"].as_num(0.1);
    rc=lib_call(c,[&]{ SU_vector r=c.slot[a].v().Rotate(i,j,th,del); (void)r; });
  }else if(op=="rotate_b"){
    mutating=true; bool b0=o["b0"].as_bool(false); uint64_t sd=(uint64_t)o["vs"].as_int(1);
    rc=lib_call(c,[&]{
      squids::Const p; verif::Rng r(sd);
      for(unsigned j=1;j<d;j++) for(unsigned i=0;i<j;i++){ p.SetMixingAngle(i,j,r.uniform(-1,1)); p.SetPhase(i,j,r.uniform(-1,1)); }
      if(b0) c.slot[a].v().RotateToB0(p); else c.slot[a].v().RotateToB1(p);
    });
  }else if(op=="utransform_m"){
    gsl_matrix_complex* U=make_unitary(d,(uint64_t)o["vs"].as_int(1)); bool dag=o["dag"].as_bool(false);
    rc=lib_call(c,[&]{ SU_vector r=dag?c.slot[a].v().UDaggerTransform(U):c.slot[a].v().UTransform(U); (void)r; });
    gsl_matrix_complex_free(U);
  }else if(op=="utransform_v"){
    if(!usable(b)||c.mv[b].dim!=d){ end(); skip("operand"); return; }
    double sc=o["x"].as_num(0.7);
    rc=lib_call(c,[&]{ SU_vector r=c.slot[a].v().UTransform(c.slot[b].v(),gsl_complex_rect(0.0,sc)); (void)r; });
  }else if(op=="eigen"){
    rc=lib_call(c,[&]{ auto e=c.slot[a].v().GetEigenSystem(o["order"].as_bool(true)); (void)e; });
  }else if(op=="prep_evolve"){
    int variant=(int)(o["variant"].as_int(0)%5); double t=o["x"].as_num(1.0);
    double* buf=verif::user_buffer_alloc(d*(d-1),101);
    rc=lib_call(c,[&]{
      SU_vector& v=c.slot[a].v();
      std::vector<bool> avr(d*(d-1)/2);
      switch(variant){
        case 0: v.PrepareEvolve(buf,t); break;
        case 1: v.PrepareEvolve(buf,t,o["y"].as_num(1.0),avr); break;
        case 2: v.PrepareEvolve(buf,t,t+1.5); break;
        case 3: v.PrepareEvolve(buf,t); v.LowPassFilter(buf,2.0,0.5); break;
        default: v.PrepareEvolve(buf,t); v.AvgRampFilter(buf,t,3.0,1.0); break;
      }
    });
    verif::alloc_check_guards();
    verif::user_buffer_free(buf);
  }else if(op=="const_ops"){
    uint64_t sd=(uint64_t)o["vs"].as_int(1); int variant=(int)(o["variant"].as_int(0)%4);
    rc=lib_call(c,[&]{
      squids::Const p; verif::Rng r(sd);
      for(unsigned j=1;j<d;j++) for(unsigned i=0;i<j;i++){ p.SetMixingAngle(i,j,r.uniform(-1,1)); p.SetPhase(i,j,r.uniform(-1,1)); }
      for(unsigned k=1;k<d;k++) p.SetEnergyDifference(k,r.uniform(0,2));
      auto U=p.GetTransformationMatrix(d);
      SU_vector rot=c.slot[a].v().Rotate(U.get());
      squids::Const q(std::move(p));                     // moved-to object keeps working
      double th=q.GetMixingAngle(0,1)+q.GetPhase(0,1)+q.GetEnergyDifference(1); (void)th;
      squids::Const w; w=std::move(q);
      auto U2=w.GetTransformationMatrix(d);
      switch(variant){                                   // calls that must be rejected, in the middle of valid use
        case 1: try{ w.SetMixingAngle(3,2,0.1); }catch(std::runtime_error&){ } break;
        case 2: try{ auto bad=w.GetTransformationMatrix(7); (void)bad; }catch(std::runtime_error&){ } break;
        case 3: try{ (void)w.GetEnergyDifference(0); }catch(std::runtime_error&){ } break;
        default: break;
      }
      SU_vector back=rot.UDaggerTransform(U2.get()); (void)back;
    });
  }else if(op=="print"){
    rc=lib_call(c,[&]{ std::ostringstream os; os<<c.slot[a].v(); });
  }else if(op=="weighted"){
    if(!usable(b)||c.mv[b].dim!=d){ end(); skip("operand"); return; }
    mutating=true; uint64_t sd=(uint64_t)o["vs"].as_int(1);
    gsl_matrix_complex* V=make_unitary(d,sd); gsl_matrix_complex* W=make_unitary(d,sd+1);
    rc=lib_call(c,[&]{ c.slot[a].v().WeightedRotation(V,c.slot[b].v(),W); });
    gsl_matrix_complex_free(V); gsl_matrix_complex_free(W);
  }else{ end(); skip("unknown query"); return; }
  bool fired=end();
  int st=settle(rc,fired,false,"C15","C15",op+":"+kd(a),true);
  if(mutating){
    // the values are not judged here (C01/C06 matters); the storage kind must not change
    int k0=ma.kind,b0=ma.buf; unsigned d0=ma.dim;
    if(!adopt(c,a,st==ST_FAULTED?"C16":"C15",true)) return;
    if(st==ST_DONE && (ma.kind!=k0||ma.buf!=b0||ma.dim!=d0)) violation(c,"C08","model:other-changed",op+":storage-kind","the storage kind or dimension of the vector changed in "+op);
  }
  shp(op); shp(kd(a));
  check_all(c,"C15",op);
}

void Exec::op_cache(const Json& o,const std::string& op){
  if(op=="clear_cache"){
    begin(op,"C15");
    int rc=lib_call(c,[&]{ SU_vector::clear_mem_cache(); });
    end();
    if(rc!=CALL_OK) violation(c,"C15","exc:unexpected",op,"clear_mem_cache threw");
    shp(op); check_all(c,"C15",op); return;
  }
  // burst: n vectors of one dimension created and destroyed, so that the cache-full and cache-miss paths run
  long d=o["d"].as_int(3); if(d<2||d>6) d=3;
  long n=o["n"].as_int(34); if(n<1) n=1; if(n>48) n=48;
  bool lifo=o["lifo"].as_bool(false); bool refill=o["refill"].as_bool(false); long shared=-1;
  begin(op,"C15");
  int rc=lib_call(c,[&]{
    std::vector<SU_vector> pool;
    pool.reserve((size_t)n);
    for(long i=0;i<n;i++){ pool.emplace_back((unsigned)d); pool.back()[0]=(double)i; }
    if(lifo) while(!pool.empty()) pool.pop_back();
    else pool.clear();
    if(refill){
      // as many again, all alive at once: each must have storage of its own, whatever the cache handed back
      for(long i=0;i<n;i++){ pool.emplace_back((unsigned)d); for(long k=0;k<d*d;k++) pool.back()[(unsigned)k]=(double)(i*100+k); }
      for(long i=0;i<n&&shared<0;i++){ for(long k=0;k<d*d;k++) if(pool[(size_t)i][(unsigned)k]!=(double)(i*100+k)){ shared=i; break; } }
      pool.clear();
    }
  });
  bool fired=end();
  if(shared>=0 && rc==CALL_OK){ violation(c,"C08","model:storage-overlap","burst:refill","after "+std::to_string(n)+" vectors of dimension "+std::to_string(d)+" were destroyed and as many created again, vector "+std::to_string(shared)+" of the new ones lost its value: it shares storage with another live vector"); return; }
  settle(rc,fired,false,"C15","C15","burst",true);
  if(n>32){ nontrivial=true; c.ctr->add("probe_cache_full"); }
  shp(op); shp(d); check_all(c,"C15",op);
}

// a std::vector<SU_vector> driven through growth, erase, swap and sort-like moves: every element must come out with its value
void Exec::op_container(const Json& o){
  std::vector<int> src; const Json& sl=o["slots"];
  for(size_t i=0;i<sl.size()&&i<6;i++){ int s=(int)(sl[i].as_int(0)%NSLOTS); if(s<0) s=0; if(usable(s)) src.push_back(s); }
  if(src.empty()){ skip("no usable source"); return; }
  uint64_t seed=(uint64_t)o["vs"].as_int(1);
  std::vector<std::vector<double> > expect; std::vector<std::vector<double> > got; bool ok_sizes=true;
  begin("container","C15");
  int rc=lib_call(c,[&]{
    verif::Rng r(seed);
    std::vector<SU_vector> box;                       // no reserve: growth relocates the elements by move construction
    for(size_t i=0;i<src.size();i++){
      SU_vector& v=c.slot[src[i]].v();
      if(r.chance(0.5)) box.push_back(v); else box.push_back(SU_vector(v));
      if(r.chance(0.4)){ box.push_back(v*2.0); }
    }
    verif::alloc_scope(0);
    for(size_t i=0,k=0;i<src.size();i++){ expect.push_back(mvals(c,src[i])); k++; (void)k; }
    verif::alloc_scope(1);
    // rebuild the expectation in the same order as the pushes (the coin flips are replayed)
    { verif::alloc_scope(0); expect.clear(); verif::Rng r2(seed); for(size_t i=0;i<src.size();i++){ std::vector<double> a=mvals(c,src[i]); (void)r2.chance(0.5); expect.push_back(a); if(r2.chance(0.4)){ for(size_t q=0;q<a.size();q++) a[q]*=2.0; expect.push_back(a); } } verif::alloc_scope(1); }
    if(box.size()>=2){ std::swap(box.front(),box.back()); verif::alloc_scope(0); std::swap(expect.front(),expect.back()); verif::alloc_scope(1); }
    if(box.size()>=3){ box.erase(box.begin()+1); verif::alloc_scope(0); expect.erase(expect.begin()+1); verif::alloc_scope(1); }   // elements shift down by move assignment
    box.reserve(box.capacity()+7);
    if(box.size()>=2){ box.insert(box.begin(),box.back()); verif::alloc_scope(0); expect.insert(expect.begin(),expect.back()); verif::alloc_scope(1); }
    verif::alloc_scope(0);
    for(size_t i=0;i<box.size();i++){ if(box[i].Size()!=expect[i].size()){ ok_sizes=false; break; } got.push_back(std::vector<double>(&box[i][0],&box[i][0]+box[i].Size())); }
    verif::alloc_scope(1);
  });
  bool fired=end();
  int st=settle(rc,fired,false,"C08","C08","container",false);
  if(st==ST_DONE){
    if(!ok_sizes||got.size()!=expect.size()){ violation(c,"C08","model:value-mismatch","container:size","an element of a std::vector<SU_vector> changed its dimension while the container was rearranged"); return; }
    for(size_t i=0;i<got.size();i++) for(size_t q=0;q<got[i].size();q++) if(!same_value(got[i][q],expect[i][q])){
      violation(c,"C08","model:value-mismatch","container","element "+std::to_string(i)+" of a std::vector<SU_vector> lost its value while the container was rearranged (push_back growth, swap, erase, reserve, insert)"); return; }
    c.ctr->add("probe_container_checked");
  }
  shp("container"); shp((long)src.size());
  check_all(c,"C08","container");
}

void Exec::run_op(const Json& o){
  std::string op=o["op"].as_str();
  if(op=="default"||op=="sized"||op=="ext"||op=="list"||op=="matrix"||op=="factory"||op=="make_aligned") op_construct(o,op);
  else if(op=="copy_ctor") op_copy_move_ctor(o,false);
  else if(op=="move_ctor") op_copy_move_ctor(o,true);
  else if(op=="destroy") op_destroy(o);
  else if(op=="copy_assign") op_assign(o,false);
  else if(op=="move_assign") op_assign(o,true);
  else if(op=="set_backing") op_set_backing(o);
  else if(op=="set_elem"||op=="set_all"||op=="fill") op_write(o,op);
  else if(op=="compound") op_compound(o);
  else if(op=="scale") op_scale(o);
  else if(op=="stmt") op_stmt(o);
  else if(op=="clear_cache"||op=="burst") op_cache(o,op);
  else if(op=="container") op_container(o);
  else op_query(o,op);
}

// quiescence: destroy everything, empty the cache; every block the library allocated must have been released
void Exec::leak_check(){
  if(!c.out->ok) return;
  verif::BlockInfo bi[8];
  int n=verif::alloc_live_lib_blocks(bi,8);
  if(n>0){
    char buf[200]; snprintf(buf,sizeof buf,"%d block(s) still allocated after every vector was destroyed and the cache emptied; first: #%ld, %zu bytes, allocated in op#%d",n,bi[0].id,bi[0].size,bi[0].tag);
    std::string where=bi[0].tag==-2?"oracle":(bi[0].tag>=0&&bi[0].tag<(int)opkinds.size()?opkinds[bi[0].tag]:"?");
    violation(c,"C15","ledger:leak",where,buf);
  }
}

void Exec::finish(){
  c.opi++; begin("quiescence","C15");
  lib_call(c,[&]{ for(int s=0;s<NSLOTS;s++) if(c.slot[s].alive){ c.slot[s].v().~SU_vector(); c.slot[s].alive=false; c.mv[s]=MVec(); } });
  lib_call(c,[&]{ SU_vector::clear_mem_cache(); });
  end();
  oracle.stop();
  if(!c.out->ok) return;
  check_all(c,"C15","quiescence");
  if(!c.out->ok) return;
}

}
