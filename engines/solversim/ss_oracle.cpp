// solversim oracles 1 and 2: call-level refinement of the right-hand side and callback arguments.
#include "solver.h"
#include <cstring>
#include <cmath>
#include <cstdio>

namespace ss{

static inline bool is_payload(double d){ uint64_t u; memcpy(&u,&d,8); return u==verif::NAN_PAYLOAD; }

void SimSolver::PreDerive(double t){
  rec(0,0,0,t);
  RunCtx& c=*ctx;
  // a callback that looks at the object instead of its argument: the clock the object shows is the time it has just announced
  if(Get_t()!=t){ char b[200]; snprintf(b,sizeof b,"PreDerive was told t=%.17g while Get_t() still shows %.17g",t,Get_t()); c.violation("C10","callback:clock-behind","PreDerive",b); }
  if(c.pre_hook && !c.in_proxy) c.pre_hook(c.run,this,t);
  if(c.in_proxy && c.toggle_at>0 && ++c.pre_count==c.toggle_at){
    // the user's callback switches a term on or off: the evaluation it precedes must already honour the new setting (disabled terms contribute nothing)
    bool* f[5]={&c.sw.coh,&c.sw.noncoh,&c.sw.other,&c.sw.gs,&c.sw.os}; bool v=!*f[c.toggle_which%5]; *f[c.toggle_which%5]=v;
    switch(c.toggle_which%5){ case 0: Set_CoherentRhoTerms(v); break; case 1: Set_NonCoherentRhoTerms(v); break; case 2: Set_OtherRhoTerms(v); break; case 3: Set_GammaScalarTerms(v); break; default: Set_OtherScalarTerms(v); }
    c.toggled=true;
  }
  if(c.in_proxy && c.cur_input){
    // binding correctness at the moment it matters: what a derived class reads through the in-step views in PreDerive is the state the
    // stepper passed for this evaluation (compared by value: where the views live is the library's business)
    for(unsigned ix=0;ix<nx;ix++){
      for(unsigned ir=0;ir<nrhos;ir++){
        const double* want=c.cur_input+ix*stride()+ir*nsun*nsun;
        const squids::SU_vector& v=estate[ix].rho[ir];
        bool same=(v.Dim()==nsun);
        for(unsigned k=0;same&&k<nsun*nsun;k++) if(memcmp(&v[k],&want[k],sizeof(double))!=0) same=false;
        if(!same){ c.violation("C04","rhs:view-binding","estate","in PreDerive the evolving view of node "+std::to_string(ix)+" matrix "+std::to_string(ir)+" does not show the state the stepper passed for this evaluation"); return; }
      }
      for(unsigned is=0;is<nscalars;is++) if(memcmp(&estate[ix].scalar[is],&c.cur_input[ix*stride()+nrhos*nsun*nsun+is],sizeof(double))!=0){
        c.violation("C04","rhs:view-binding","scalar","in PreDerive the scalar view of node "+std::to_string(ix)+" does not show the state the stepper passed for this evaluation"); return; }
    }
  }
}

void check_call_log(RunCtx& c,double t){
  if(!c.out->ok) return;
  Problem& p=*c.prob;
  unsigned npre=0; std::vector<int> cnt[6];
  for(int k=1;k<=3;k++) cnt[k].assign(p.nx*p.nrhos,0);
  for(int k=4;k<=5;k++) cnt[k].assign(p.nx*(p.nscalars?p.nscalars:1),0);
  static const char* names[]={"PreDerive","HI","GammaRho","InteractionsRho","GammaScalar","InteractionsScalar","H0"};
  for(size_t i=0;i<c.log.size();i++){
    const CallRec& r=c.log[i];
    if(r.self!=(const void*)c.live){ c.violation("C10","callback:wrong-object",names[r.kind],std::string(names[r.kind])+" arrived at an object that is not the live solver"); return; }
    if(r.kind==0){
      npre++;
      if(r.t!=t){ c.violation("C04","callback:time",names[0],"PreDerive received a time different from the stepper's"); return; }
      if(i!=0 && npre==1){ c.violation("C04","callback:order",names[0],"PreDerive was not the first callback of the evaluation"); return; }
      continue;
    }
    if(r.kind==6) continue;
    if(r.t!=t){ char b[160]; snprintf(b,sizeof b,"%s(%u,%u) received time %.17g, the stepper's time is %.17g",names[r.kind],r.ix,r.idx,r.t,t); c.violation("C04","callback:time",names[r.kind],b); return; }
    unsigned lim=(r.kind<=3)?p.nrhos:p.nscalars;
    if(r.ix>=p.nx||r.idx>=lim){ c.violation("C04","callback:index",names[r.kind],std::string(names[r.kind])+" called with an index outside the configured counts"); return; }
    cnt[r.kind][r.ix*lim+r.idx]++;
  }
  // the property fixes the arguments of the callbacks, not how often an evaluation calls them: at least once each
  if(npre<1){ c.violation("C04","callback:count","PreDerive","PreDerive was not called in an evaluation of the right-hand side"); return; }
  bool en[6]={false,c.sw.coh,c.sw.noncoh,c.sw.other,c.sw.gs,c.sw.os};
  for(int k=1;k<=5;k++){
    if(!en[k]) continue;
    if(k>=4 && p.nscalars==0) continue;
    for(size_t q=0;q<cnt[k].size();q++) if(cnt[k][q]<1){
      unsigned lim=(k<=3)?p.nrhos:p.nscalars;
      c.violation("C04","callback:count",names[k],std::string(names[k])+" called "+std::to_string(cnt[k][q])+" times for node "+std::to_string(q/lim)+" index "+std::to_string(q%lim)+" in one evaluation"); return;
    }
  }
}

void check_rhs(RunCtx& c,double t,const double* y,const double* dydt,size_t dim,const char* where){
  if(!c.out->ok) return;
  Problem& p=*c.prob;
  unsigned d=p.nsun,sr=d*d,stride=sr*p.nrhos+p.nscalars;
  if(dim!=(size_t)stride*p.nx){ c.violation("C04","rhs:dimension",where,"system dimension differs from nx*(nrhos*nsun^2+nscalars)"); return; }
  for(unsigned ix=0;ix<p.nx;ix++){
    for(unsigned ir=0;ir<p.nrhos;ir++){
      const double* yy=y+ix*stride+ir*sr; const double* dd=dydt+ix*stride+ir*sr;
      Mat rho=verif::from_components(d,yy);
      Mat R(d); double scale=0;
      if(c.sw.coh){ Mat H=p.HI(ix,ir,t); R=R+(H*rho-rho*H).scaled(cplx(0,-1)); scale+=H.maxabs()*rho.maxabs(); }
      if(c.sw.noncoh){ Mat G=p.Gam(ix,ir,t); R=R-(G*rho+rho*G); scale+=G.maxabs()*rho.maxabs(); }
      if(c.sw.other){ Mat I=p.Int(ix,ir,t); R=R+I; scale+=I.maxabs(); }
      std::vector<double> want=verif::to_components(R);
      double tol=1e-12*d*d*(scale+1e-300);
      for(unsigned k=0;k<sr;k++){
        if(is_payload(dd[k])){ char b[200]; snprintf(b,sizeof b,"derivative component %u of node %u matrix %u was never written (%s)",k,ix,ir,where); c.violation("C04","rhs:unwritten",where,b); return; }
        if(!(std::fabs(dd[k]-want[k])<=tol)){
          char b[260]; snprintf(b,sizeof b,"node %u matrix %u component %u at t=%.6g: library %.17g, documented equation %.17g (tolerance %.3g, switches %d%d%d, %s)",ix,ir,k,t,dd[k],want[k],tol,c.sw.coh,c.sw.noncoh,c.sw.other,where);
          c.violation("C04","rhs:mismatch",where,b); return;
        }
      }
    }
    for(unsigned is=0;is<p.nscalars;is++){
      double s=y[ix*stride+p.nrhos*sr+is],got=dydt[ix*stride+p.nrhos*sr+is];
      double want=0,scale=0;
      if(c.sw.gs){ want+=-p.GamS(ix,is,t)*s; scale+=std::fabs(p.GamS(ix,is,t)*s); }
      if(c.sw.os){ want+=p.IntS(ix,is,t); scale+=std::fabs(p.IntS(ix,is,t)); }
      if(is_payload(got)){ c.violation("C04","rhs:unwritten",where,"scalar derivative of node "+std::to_string(ix)+" index "+std::to_string(is)+" was never written"); return; }
      if(!(std::fabs(got-want)<=1e-13*(scale+1e-300))){
        char b[240]; snprintf(b,sizeof b,"node %u scalar %u at t=%.6g: library %.17g, documented equation %.17g (%s)",ix,is,t,got,want,where);
        c.violation("C04","rhs:mismatch",std::string(where)+":scalar",b); return;
      }
    }
  }
}

}
