// solversim: seeded problems with closed-form solutions (DESIGN.md appendix B) and the dense reference state.
#ifndef VERIF_PROBLEM_H
#define VERIF_PROBLEM_H
#include "../../sim/dense.h"
#include "../../sim/rng.h"
#include <vector>
#include <cmath>

namespace ss{

using verif::Mat; using verif::cplx; using verif::Rng;

struct TimeFn{
  int kind; double c,w;   // 0: c, 1: c*t, 2: c*cos(w t)
  double val(double t) const{ return kind==0?c:(kind==1?c*t:c*std::cos(w*t)); }
  long double integral(long double t0,long double t1) const{
    if(kind==0) return (long double)c*(t1-t0);
    if(kind==1) return (long double)c*(t1*t1-t0*t0)/2;
    return (long double)c/(long double)w*(sinl((long double)w*t1)-sinl((long double)w*t0));
  }
  double maxabs(double t0,double t1) const{ if(kind==1){ double a=std::fabs(c*t0),b=std::fabs(c*t1); return a>b?a:b; } return std::fabs(c); }
};
inline TimeFn gen_fn(Rng& r,double scale,bool nonneg){
  TimeFn f; f.kind=(int)r.weighted({50,20,30}); f.w=r.uniform(0.5,3.0);
  f.c=r.uniform(0.2,1.0)*scale; if(!nonneg&&r.chance(0.5)) f.c=-f.c;
  if(nonneg&&f.kind!=0) f.kind=0;        // damping rates stay non-negative
  if(f.kind==1) f.c*=0.3;
  return f;
}

// 20-point Gauss-Legendre on [-1,1]
static const long double GLX[10]={0.0765265211334973337546404L,0.2277858511416450780804962L,0.3737060887154195606725482L,0.5108670019508270980043641L,0.6360536807265150254528367L,
  0.7463319064601507926143051L,0.8391169718222188233945291L,0.9122344282513259058677524L,0.9639719272779137912676661L,0.9931285991850949247861224L};
static const long double GLW[10]={0.1527533871307258506980843L,0.1491729864726037467878287L,0.1420961093183820513292983L,0.1316886384491766268984945L,0.1181945319615184173123774L,
  0.1019301198172404350367501L,0.0832767415767047487247581L,0.0626720483341090635695065L,0.0406014298003869413310400L,0.0176140071391521183118620L};
template<class F> long double gauss(F f,long double a,long double b,int panels=16){
  long double s=0,h=(b-a)/panels;
  for(int p=0;p<panels;p++){
    long double lo=a+p*h,mid=lo+h/2,hw=h/2;
    for(int i=0;i<10;i++) s+=GLW[i]*hw*(f(mid-hw*GLX[i])+f(mid+hw*GLX[i]));
  }
  return s;
}

struct Cell{ Mat W; double a[6],gam[6],b[6]; TimeFn f,g,s; };
struct SCell{ TimeFn gam,q; };

struct Problem{
  unsigned nx,nsun,nrhos,nscalars;
  std::vector<Cell> cells;     // [ix*nrhos+irho]
  std::vector<SCell> scells;   // [ix*nscalars+is]
  std::vector<double> omega;   // [irho*nsun+k] base levels of H0
  double h0slope;

  void build(uint64_t seed,unsigned nx_,unsigned nsun_,unsigned nrhos_,unsigned nscalars_,bool all_const=false){
    nx=nx_; nsun=nsun_; nrhos=nrhos_; nscalars=nscalars_;
    Rng r(seed);
    cells.resize(nx*nrhos); scells.resize(nx*nscalars); omega.resize(nrhos*nsun);
    for(size_t c=0;c<cells.size();c++){
      Cell& ce=cells[c];
      ce.W=Mat::identity(nsun);
      int nrot=r.range(1,(int)nsun);
      for(int q=0;q<nrot;q++){ unsigned j=1+(unsigned)r.below(nsun-1),i=(unsigned)r.below(j); ce.W=ce.W*verif::plane_rotation(nsun,i,j,r.uniform(-1.5,1.5),r.uniform(-1,1)); }
      for(unsigned k=0;k<nsun;k++){ ce.a[k]=r.uniform(-2,2); ce.gam[k]=r.uniform(0,0.5); ce.b[k]=r.uniform(-1,1); }
      ce.f=gen_fn(r,1.5,false); ce.g=gen_fn(r,1.0,true); ce.s=gen_fn(r,1.0,false);
    }
    for(size_t c=0;c<scells.size();c++){ scells[c].gam=gen_fn(r,0.8,true); scells[c].q=gen_fn(r,1.0,false); }
    for(size_t k=0;k<omega.size();k++) omega[k]=r.uniform(-3,3);
    h0slope=r.uniform(0.1,1.0);
    // time-independent terms only (plans at clocks of 1e13 and more, where c*t and cos(w t) mean nothing): the same draws, kinds forced afterwards
    if(all_const){ for(size_t c=0;c<cells.size();c++){ cells[c].f.kind=0; cells[c].g.kind=0; cells[c].s.kind=0; } for(size_t c=0;c<scells.size();c++){ scells[c].gam.kind=0; scells[c].q.kind=0; } }
  }
  const Cell& cell(unsigned ix,unsigned irho) const{ return cells[ix*nrhos+irho]; }
  static Mat diagm(unsigned d,const double* v,double s){ Mat m(d); for(unsigned k=0;k<d;k++) m.m[k][k]=v[k]*s; return m; }
  Mat HI(unsigned ix,unsigned irho,double t) const{ const Cell& c=cell(ix,irho); return c.W*diagm(nsun,c.a,c.f.val(t))*c.W.dagger(); }
  Mat Gam(unsigned ix,unsigned irho,double t) const{ const Cell& c=cell(ix,irho); return c.W*diagm(nsun,c.gam,c.g.val(t))*c.W.dagger(); }
  Mat Int(unsigned ix,unsigned irho,double t) const{ const Cell& c=cell(ix,irho); return c.W*diagm(nsun,c.b,c.s.val(t))*c.W.dagger(); }
  double GamS(unsigned ix,unsigned is,double t) const{ return scells[ix*nscalars+is].gam.val(t); }
  double IntS(unsigned ix,unsigned is,double t) const{ return scells[ix*nscalars+is].q.val(t); }
  double level(double x,unsigned irho,unsigned k) const{ return omega[irho*nsun+k]*(1.0+h0slope*x); }
  Mat H0(double x,unsigned irho) const{ Mat m(nsun); for(unsigned k=0;k<nsun;k++) m.m[k][k]=level(x,irho,k); return m; }
  // spectral bound of the right-hand side (for tolerances)
  double lambda(double t0,double t1) const{
    double L=0;
    for(size_t c=0;c<cells.size();c++){ double l=4*cells[c].f.maxabs(t0,t1)+1.0*cells[c].g.maxabs(t0,t1); if(l>L) L=l; }
    for(size_t c=0;c<scells.size();c++){ double l=scells[c].gam.maxabs(t0,t1); if(l>L) L=l; }
    return L+1e-3;
  }

  // closed-form advance of one density matrix from t0 to t1 under the term switches
  Mat advance(unsigned ix,unsigned irho,const Mat& rho,double t0,double t1,bool coh,bool noncoh,bool other) const{
    const Cell& c=cell(ix,irho);
    Mat rt=c.W.dagger()*rho*c.W;
    long double F=coh?c.f.integral(t0,t1):0, G=noncoh?c.g.integral(t0,t1):0;
    for(unsigned j=0;j<nsun;j++) for(unsigned k=0;k<nsun;k++){
      long double ph=-(long double)(c.a[j]-c.a[k])*F, dm=-(long double)(c.gam[j]+c.gam[k])*G;
      rt.m[j][k]*=cplx((double)(expl(dm)*cosl(ph)),(double)(expl(dm)*sinl(ph)));
    }
    if(other){
      for(unsigned j=0;j<nsun;j++){
        long double gj=c.gam[j];
        const Cell* cp=&c; bool nc=noncoh; long double T1=t1;
        long double add=gauss([cp,gj,nc,T1](long double tau)->long double{
          long double Gt=nc?cp->g.integral(tau,T1):0; return (long double)cp->s.val((double)tau)*expl(-2*gj*Gt); },t0,t1);
        rt.m[j][j]+=(double)((long double)c.b[j]*add);
      }
    }
    return c.W*rt*c.W.dagger();
  }
  double advance_scalar(unsigned ix,unsigned is,double s0,double t0,double t1,bool gs,bool os) const{
    const SCell& c=scells[ix*nscalars+is];
    long double G=gs?c.gam.integral(t0,t1):0;
    long double r=(long double)s0*expl(-G);
    if(os){
      const SCell* cp=&c; long double T1=t1;
      r+=gauss([cp,gs,T1](long double tau)->long double{ long double Gt=gs?cp->gam.integral(tau,T1):0; return (long double)cp->q.val((double)tau)*expl(-Gt); },t0,t1);
    }
    return (double)r;
  }
};

}
#endif
