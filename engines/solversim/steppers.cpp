// S6: (a) real GSL steppers wrapped so that every right-hand-side evaluation is observed and checked;
//     (b) simstep: an explicit Runge-Kutta interpreter whose buffer management is decided by the plan.
#include "solver.h"
#include <cstring>
#include <cstdlib>
#include <cmath>

namespace ss{

RunCtx* g_ctx=0;
const double* g_last_apply_y=0;

static void note_input(RunCtx& c,const double* y){
  for(int i=0;i<c.nseen;i++) if(c.seen_inputs[i]==y) return;
  if(c.nseen<8) c.seen_inputs[c.nseen++]=y;
  c.distinct_inputs=c.nseen;
}

// evaluate the system through the library and check the call (oracle 1 and 2)
static int checked_eval(const gsl_odeiv2_system* orig,double t,const double* y,double* dydt){
  RunCtx& c=*g_ctx;
  size_t dim=orig->dimension;
  int sc=verif::alloc_in_scope(); verif::alloc_scope(0);          // harness bookkeeping is not a library allocation
  std::vector<double> ycopy(y,y+dim);
  uint64_t pat=verif::NAN_PAYLOAD;
  for(size_t i=0;i<dim;i++) memcpy(&dydt[i],&pat,8);
  c.log.clear(); c.cur_input=y; c.cur_t=t; c.in_proxy=true;
  verif::alloc_scope(sc);
  int rc=orig->function(t,y,dydt,orig->params);
  verif::alloc_scope(0);
  c.in_proxy=false; c.rhs_evals++; note_input(c,y);
  if(memcmp(&ycopy[0],y,dim*sizeof(double))!=0) c.violation("C04","rhs:input-modified","evolve","the right-hand side modified its input state array");
  check_call_log(c,t);
  check_rhs(c,t,y,dydt,dim,"apply");
  { std::vector<double>().swap(ycopy); }
  verif::alloc_scope(sc);
  return rc;
}

// ---------------------------------------------------------------------------------------------
// (a) wrapped real steppers
struct WrapState{ const gsl_odeiv2_step_type* real; void* rstate; gsl_odeiv2_system proxy; const gsl_odeiv2_system* orig; size_t dim; };
static __thread const gsl_odeiv2_step_type* tl_real=0;

static int proxy_fn(double t,const double* y,double* dydt,void* params){
  WrapState* w=(WrapState*)params;
  return checked_eval(w->orig,t,y,dydt);
}
static void* w_alloc(size_t dim){
  WrapState* w=(WrapState*)malloc(sizeof(WrapState));
  w->real=tl_real; w->rstate=w->real->alloc(dim); w->dim=dim; w->orig=0;
  w->proxy.function=proxy_fn; w->proxy.jacobian=0; w->proxy.dimension=dim; w->proxy.params=w;
  return w;
}
static int w_apply(void* st,size_t dim,double t,double h,double y[],double yerr[],const double dydt_in[],double dydt_out[],const gsl_odeiv2_system* sys){
  WrapState* w=(WrapState*)st; RunCtx& c=*g_ctx;
  w->orig=sys; c.napply++; g_last_apply_y=y;
  { int sc0=verif::alloc_in_scope(); verif::alloc_scope(0); c.last_apply_t=t; c.last_apply_y.assign(y,y+dim); c.have_last_apply=true; verif::alloc_scope(sc0); }
  // a retryable failure makes the evolve loop halve h: only meaningful while h can still shrink
  if(c.fail_budget>0 && std::fabs(h)>1e-9){ c.fail_budget--; c.failures_fired++; return GSL_FAILURE; }
  // the evolve-level evaluation that produced dydt_in did not pass through the proxy: check it now, y is still intact
  if(dydt_in && !c.toggled) check_rhs(c,t,y,dydt_in,dim,"dydt_in");   // after a switch was flipped in mid-Evolve a derivative evaluated before the flip is still legitimately in use (retried step)
  int rc=w->real->apply(w->rstate,dim,t,h,y,yerr,dydt_in,dydt_out,&w->proxy);
  if(rc==GSL_SUCCESS && c.reject_budget>0 && yerr && std::fabs(h)>1e-9){ c.reject_budget--; c.rejections_fired++; for(size_t i=0;i<dim;i++) yerr[i]=1e30; }
  return rc;
}
static int w_set_driver(void* st,const gsl_odeiv2_driver* d){ WrapState* w=(WrapState*)st; return w->real->set_driver?w->real->set_driver(w->rstate,d):GSL_SUCCESS; }
static int w_reset(void* st,size_t dim){ WrapState* w=(WrapState*)st; return w->real->reset(w->rstate,dim); }
static unsigned int w_order(void* st){ WrapState* w=(WrapState*)st; return w->real->order(w->rstate); }
static void w_free(void* st){ WrapState* w=(WrapState*)st; w->real->free(w->rstate); free(w); }

static gsl_odeiv2_step_type wrap_types[6];
const gsl_odeiv2_step_type* wrapped_stepper(const std::string& name){
  static const char* names[]={"rk2","rk4","rkf45","rkck","rk8pd","msadams"};
  const gsl_odeiv2_step_type* reals[]={gsl_odeiv2_step_rk2,gsl_odeiv2_step_rk4,gsl_odeiv2_step_rkf45,gsl_odeiv2_step_rkck,gsl_odeiv2_step_rk8pd,gsl_odeiv2_step_msadams};
  int k=2; for(int i=0;i<6;i++) if(name==names[i]) k=i;
  gsl_odeiv2_step_type& t=wrap_types[k];
  t.name=names[k]; t.can_use_dydt_in=reals[k]->can_use_dydt_in; t.gives_exact_dydt_out=reals[k]->gives_exact_dydt_out;
  t.alloc=w_alloc; t.apply=w_apply; t.set_driver=w_set_driver; t.reset=w_reset; t.order=w_order; t.free=w_free;
  tl_real=reals[k];
  return &t;
}

// ---------------------------------------------------------------------------------------------
// (b) simstep
struct Tableau{ int stages; double a[4][4]; double b[4]; double cnode[4]; int order; };
static const Tableau tableaux[]={
  {1,{{0}},{1},{0},1},                                                            // Euler
  {2,{{0},{0.5}},{0,1},{0,0.5},2},                                               // midpoint
  {2,{{0},{1}},{0.5,0.5},{0,1},2},                                               // Heun
  {4,{{0},{0.5},{0,0.5},{0,0,1}},{1/6.,1/3.,1/3.,1/6.},{0,0.5,0.5,1},4},          // classical RK4
  {4,{{0},{1/3.},{-1/3.,1},{1,-1,1}},{1/8.,3/8.,3/8.,1/8.},{0,1/3.,2/3.,1},4},   // 3/8 rule
  {3,{{0},{0.5},{0,0.75}},{2/9.,1/3.,4/9.},{0,0.5,0.75},3},                       // Ralston
};
static __thread int tl_tableau=3,tl_bufmode=0;
struct SimState{ size_t dim; int tableau,bufmode; double* k[4]; double* ytmp; double* alt[2]; long applies; };

static void* s_alloc(size_t dim){
  SimState* s=(SimState*)calloc(1,sizeof(SimState));
  s->dim=dim; s->tableau=tl_tableau; s->bufmode=tl_bufmode;
  if(s->bufmode!=1){ for(int i=0;i<4;i++) s->k[i]=(double*)malloc(dim*sizeof(double)); s->ytmp=(double*)malloc(dim*sizeof(double)); }
  if(s->bufmode==3){ s->alt[0]=(double*)malloc(dim*sizeof(double)); s->alt[1]=(double*)malloc(dim*sizeof(double)); }
  return s;
}
static int s_apply(void* st,size_t dim,double t,double h,double y[],double yerr[],const double dydt_in[],double dydt_out[],const gsl_odeiv2_system* sys){
  SimState* s=(SimState*)st; RunCtx& c=*g_ctx; const Tableau& T=tableaux[s->tableau];
  c.napply++; s->applies++; g_last_apply_y=y;
  { int sc0=verif::alloc_in_scope(); verif::alloc_scope(0); c.last_apply_t=t; c.last_apply_y.assign(y,y+dim); c.have_last_apply=true; verif::alloc_scope(sc0); }
  if(c.hard_fail_at>0 && c.napply>=c.hard_fail_at){ c.hard_fail_at=-1; return GSL_EBADFUNC; }
  if(c.fail_budget>0 && std::fabs(h)>1e-9){ c.fail_budget--; c.failures_fired++; return GSL_FAILURE; }
  double* k[4]; double* ytmp;
  if(s->bufmode==1){ for(int i=0;i<4;i++) k[i]=(double*)malloc(dim*sizeof(double)); ytmp=(double*)malloc(dim*sizeof(double)); }   // fresh (recycled) addresses every step
  else{ for(int i=0;i<4;i++) k[i]=s->k[i]; ytmp=s->ytmp; if(s->bufmode==3) ytmp=s->alt[s->applies&1]; }
  if(dydt_in && !c.toggled) check_rhs(c,t,y,dydt_in,dim,"dydt_in");   // after a switch was flipped in mid-Evolve a derivative evaluated before the flip is still legitimately in use (retried step)
  int rc=GSL_SUCCESS;
  for(int i=0;i<T.stages && rc==GSL_SUCCESS;i++){
    if(i==0 && dydt_in){ memcpy(k[0],dydt_in,dim*sizeof(double)); continue; }
    const double* in=y;
    if(i>0){ for(size_t q=0;q<dim;q++){ double acc=y[q]; for(int j=0;j<i;j++) acc+=h*T.a[i][j]*k[j][q]; ytmp[q]=acc; } in=ytmp; }
    double* outbuf=k[i];
    if(s->bufmode==2 && dydt_out && i==T.stages-1 && T.stages>1) outbuf=dydt_out;      // last stage evaluated straight into the caller's array
    rc=checked_eval(sys,t+T.cnode[i]*h,in,outbuf);
    if(outbuf!=k[i]) memcpy(k[i],outbuf,dim*sizeof(double));
  }
  if(rc==GSL_SUCCESS){
    for(size_t q=0;q<dim;q++){ double acc=y[q]; for(int i=0;i<T.stages;i++) acc+=h*T.b[i]*k[i][q]; y[q]=acc; }
    if(yerr){
      bool reject=(c.reject_budget>0 && std::fabs(h)>1e-9);
      if(reject){ c.reject_budget--; c.rejections_fired++; }
      for(size_t q=0;q<dim;q++) yerr[q]=reject?1e30:0.0;
    }
    if(dydt_out) rc=checked_eval(sys,t+h,y,dydt_out);      // exact derivative at the end of the step
  }
  if(s->bufmode==1){ for(int i=0;i<4;i++) free(k[i]); free(ytmp); }
  return rc;
}
static int s_set_driver(void*,const gsl_odeiv2_driver*){ return GSL_SUCCESS; }
static int s_reset(void*,size_t){ return GSL_SUCCESS; }
static unsigned int s_order(void* st){ return (unsigned)tableaux[((SimState*)st)->tableau].order; }
static void s_free(void* st){ SimState* s=(SimState*)st; for(int i=0;i<4;i++) free(s->k[i]); free(s->ytmp); free(s->alt[0]); free(s->alt[1]); free(s); }

static gsl_odeiv2_step_type sim_types[2];
const gsl_odeiv2_step_type* sim_stepper(int tableau,int bufmode,bool use_dydt_in){
  gsl_odeiv2_step_type& t=sim_types[use_dydt_in?1:0];
  t.name="simstep"; t.can_use_dydt_in=use_dydt_in?1:0; t.gives_exact_dydt_out=1;
  t.alloc=s_alloc; t.apply=s_apply; t.set_driver=s_set_driver; t.reset=s_reset; t.order=s_order; t.free=s_free;
  tl_tableau=((tableau%6)+6)%6; tl_bufmode=((bufmode%4)+4)%4;
  return &t;
}

}
