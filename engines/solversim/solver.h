// solversim: the harness solver class (S5), the RHS oracle and the stepper seam (S6).
#ifndef VERIF_SOLVER_H
#define VERIF_SOLVER_H
#include <SQuIDS/SQuIDS.h>
#include "problem.h"
#include "../../sim/trace.h"
#include "../../sim/simalloc.h"
#include <gsl/gsl_errno.h>
#include <gsl/gsl_odeiv2.h>
#include <vector>
#include <string>

namespace ss{

struct Switches{ bool coh,noncoh,other,gs,os; bool any() const{ return coh||noncoh||other||gs||os; } };

struct CallRec{ int kind; unsigned ix,idx; double t; const void* self; };  // kind: 0 PreDerive 1 HI 2 Gamma 3 Int 4 GammaS 5 IntS 6 H0 (t = x)

struct SimSolver;

// shared context of one run
struct RunCtx{
  verif::Outcome* out; verif::Trace* tr; verif::Counters* ctr;
  Problem* prob; SimSolver* live;        // the solver object callbacks must arrive at
  Switches sw;
  std::vector<CallRec> log;
  const double* cur_input; double cur_t; bool in_proxy;
  long rhs_evals,napply,rejections_fired,failures_fired; int reject_budget,fail_budget; long hard_fail_at;   // >0: the n-th apply returns a hard error; -1 after it fired
  long distinct_inputs; const double* seen_inputs[8]; int nseen;
  std::string opkind; int opi; std::string prop_default;
  bool moved_in_run;
  bool have_foreign; std::string f_prop,f_cls,f_sig,f_detail;
  double last_apply_t; std::vector<double> last_apply_y; bool have_last_apply;   // (t, y) the stepper was handed at the start of its last step of this Evolve
  int toggle_at,toggle_which,pre_count; bool toggled;   // the n-th in-step PreDerive of this Evolve flips one term switch (0: never)
  void (*pre_hook)(void* run,SimSolver* self,double t); void* run;      // what the harness' PreDerive does besides logging (set by the engine)
  RunCtx():out(0),tr(0),ctr(0),prob(0),live(0),cur_input(0),cur_t(0),in_proxy(false),rhs_evals(0),napply(0),rejections_fired(0),failures_fired(0),
           reject_budget(0),fail_budget(0),hard_fail_at(0),distinct_inputs(0),nseen(0),opi(-1),moved_in_run(false),have_foreign(false),last_apply_t(0),have_last_apply(false),toggle_at(0),toggle_which(0),pre_count(0),toggled(false),pre_hook(0),run(0){}
  void violation(const std::string& prop,const std::string& cls,const std::string& sig,const std::string& detail){
    if(!out->ok) return;
    int sc=verif::alloc_in_scope(); verif::alloc_scope(0);      // may be called from a callback inside the library: harness strings must not live in the simulated heap
    if(!prop_default.empty() && prop!=prop_default){
      // a verdict of another property (the same engine serves several): remembered, reported at the end of the run unless this plan's own
      // property is violated later; the run goes on so that the consequences that belong to the plan's property can show
      if(!have_foreign){ have_foreign=true; f_prop=std::string(prop.c_str()); f_cls=std::string(cls.c_str()); f_sig=std::string(sig.c_str()); f_detail="op#"+std::to_string(opi)+" "+opkind+": "+detail.c_str(); }
      verif::alloc_scope(sc); return;
    }
    out->fail(std::string(cls.c_str()),std::string(sig.c_str()),"op#"+std::to_string(opi)+" "+opkind+": "+detail.c_str()); out->prop=std::string(prop.c_str());
    verif::alloc_scope(sc);
  }
};
extern RunCtx* g_ctx;

struct SimSolver: public squids::SQuIDS{
  RunCtx* ctx;
  explicit SimSolver(RunCtx* c):ctx(c){}
  SimSolver(SimSolver&& o):squids::SQuIDS(std::move(o)),ctx(o.ctx){}
  SimSolver& operator=(SimSolver&& o){ squids::SQuIDS::operator=(std::move(o)); ctx=o.ctx; return *this; }

  squids::SU_vector mk(const Mat& m) const{ std::vector<double> c=verif::to_components(m); return squids::SU_vector(c); }
  void rec(int kind,unsigned ix,unsigned idx,double t) const{
    CallRec r; r.kind=kind; r.ix=ix; r.idx=idx; r.t=t; r.self=this;
    int sc=verif::alloc_in_scope(); verif::alloc_scope(0); ctx->log.push_back(r); verif::alloc_scope(sc);
  }

  squids::SU_vector H0(double x,unsigned irho) const{ rec(6,0,irho,x); return mk(ctx->prob->H0(x,irho)); }
  squids::SU_vector HI(unsigned ix,unsigned irho,double t) const{ rec(1,ix,irho,t); return mk(ctx->prob->HI(ix,irho,t)); }
  squids::SU_vector GammaRho(unsigned ix,unsigned irho,double t) const{ rec(2,ix,irho,t); return mk(ctx->prob->Gam(ix,irho,t)); }
  squids::SU_vector InteractionsRho(unsigned ix,unsigned irho,double t) const{ rec(3,ix,irho,t); return mk(ctx->prob->Int(ix,irho,t)); }
  double GammaScalar(unsigned ix,unsigned is,double t) const{ rec(4,ix,is,t); return ctx->prob->GamS(ix,is,t); }
  double InteractionsScalar(unsigned ix,unsigned is,double t) const{ rec(5,ix,is,t); return ctx->prob->IntS(ix,is,t); }
  void PreDerive(double t);

  // harness access to the protected state
  unsigned stride() const{ return nsun*nsun*nrhos+nscalars; }
  double* rho_ptr(unsigned ix,unsigned irho){ return &state[ix].rho[irho][0]; }
  double* erho_ptr(unsigned ix,unsigned irho){ return &estate[ix].rho[irho][0]; }
  double* scal_ptr(unsigned ix){ return state[ix].scalar; }
  double* escal_ptr(unsigned ix){ return estate[ix].scalar; }
  unsigned rho_dim(unsigned ix,unsigned irho){ return state[ix].rho[irho].Dim(); }
  unsigned NX() const{ return nx; } unsigned NSUN() const{ return nsun; } unsigned NRHOS() const{ return nrhos; } unsigned NSC() const{ return nscalars; }
};

// dense right-hand side of the documented equation at (y,t), compared with what the library wrote into dydt
void check_rhs(RunCtx& c,double t,const double* y,const double* dydt,size_t dim,const char* where);
void check_call_log(RunCtx& c,double t);

// S6: step types
const gsl_odeiv2_step_type* wrapped_stepper(const std::string& name);   // rk2 rk4 rkf45 rkck rk8pd msadams
const gsl_odeiv2_step_type* sim_stepper(int tableau,int bufmode,bool use_dydt_in);
extern const double* g_last_apply_y;      // the array the driver integrates (the solver's system array)

}
#endif
