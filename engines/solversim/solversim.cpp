// solversim: the SQuIDS solver driven through plans of {configure, evolve, move, re-initialise, query} with the
// ODE stepper (S6), the callbacks (S5) and both allocators (S1, S2) owned by the simulator. Serves C04, C05, C10 and
// the solver half of C15.
#include "../../sim/engine_main.h"
#include "solver.h"
#include <thread>
#include <memory>
#include <cmath>
#include <algorithm>

using namespace verif;
using namespace ss;

namespace ss{

enum { CALL_OK=0, CALL_EXCEPTION=1, CALL_BADALLOC=2 };
static std::string g_what;
template<class F> int lib_call(F f){
  int r=CALL_OK;
  alloc_scope(1);
  try{ f(); }
  catch(std::bad_alloc&){ alloc_scope(0); r=CALL_BADALLOC; g_what="std::bad_alloc"; alloc_scope(1); }
  catch(std::exception& e){ alloc_scope(0); r=CALL_EXCEPTION; g_what=e.what(); alloc_scope(1); }
  catch(...){ alloc_scope(0); r=CALL_EXCEPTION; g_what="unknown"; alloc_scope(1); }
  alloc_scope(0);
  return r;
}

struct StepCfg{ std::string name; bool adaptive; double abs,rel,h; unsigned nsteps; int tableau,bufmode; bool dydt_in; int reject,fail; bool is_sim() const{ return name=="sim"; }
  int order() const{ if(name=="rk2") return 2; if(name=="rk8pd") return 7; if(name=="msadams") return 4; return 4; } };

struct Run{
  RunCtx c; Problem prob; const Json* plan;
  SimSolver* live; std::vector<SimSolver*> spares;
  std::vector<Mat> ref; std::vector<double> refs;        // reference state per (ix,irho) and (ix,is)
  std::vector<double> grid;
  StepCfg plan_sc; bool have_plan_sc; bool need_apply;   // the stepper settings are (re)applied only when the plan changes them: they must travel with the object
  int any_override; bool hmin_raised; double cur_hmin;   // -1: derived from the switches
  double acc_tol; double t_ini,sum_dt; long steps_total; StepCfg sc; bool trace_ops; bool big_clock; std::string prop;
  uint64_t shape; bool nontrivial; double sim_time; long applies_total;
  unsigned nx,nsun,nrhos,nsc;

  Run():plan(0),live(0),have_plan_sc(false),need_apply(true),any_override(-1),hmin_raised(false),cur_hmin(0),acc_tol(0),t_ini(0),sum_dt(0),steps_total(0),trace_ops(false),big_clock(false),shape(1469598103934665603ULL),nontrivial(false),sim_time(0),applies_total(0),nx(0),nsun(0),nrhos(0),nsc(0){}
  long opiseed() const{ return 1000+c.opi; }
  void shp(const std::string& s){ shape=fnv1a(s,shape); }
  void shp(long v){ shape=fnv1a(&v,sizeof v,shape); }

  void begin(const std::string& kind,const char* attr){
    c.opkind=kind;
    alloc_tag(c.opi);
    if(trace_ops){ printf("O %d %s %s\n",c.opi,kind.c_str(),attr); fflush(stdout); }
  }

  void configure(const Json& cfg,bool first){
    nx=(unsigned)std::max(1LL,std::min(9LL,cfg["nx"].as_int(2))); nsun=(unsigned)std::max(2LL,std::min(6LL,cfg["nsun"].as_int(3)));
    nrhos=(unsigned)std::max(1LL,std::min(3LL,cfg["nrhos"].as_int(1))); nsc=(unsigned)std::max(0LL,std::min(3LL,cfg["nscalars"].as_int(0)));
    t_ini=cfg["t0"].as_num(0.0); sum_dt=0; steps_total=0; acc_tol=0;
    big_clock=cfg["const_terms"].as_bool(false);
    prob.build((uint64_t)cfg["seed"].as_int(1),nx,nsun,nrhos,nsc,big_clock);
    c.prob=&prob;
    (void)first;
  }
  // grid + initial state on the live solver, reference state alongside
  bool setup_state(const Json& cfg){
    std::string gk=cfg["grid"].as_str("lin"); double a=cfg["xa"].as_num(1.0),b=cfg["xb"].as_num(2.0);
    if(!(b>a)) b=a+1.0;
    // the grid may be given in tiny units: strictly increasing is all that is required of it, absolute spacings of 1e-18 included
    double gscale=cfg["grid_scale"].as_num(1.0); if(!(gscale>0)||gk=="log") gscale=1.0; a*=gscale; b*=gscale;   // (a logarithmic grid has a documented lower limit for its first node)
    if(gscale!=1.0) c.ctr->add("probe_grid_in_tiny_units");
    int rc=CALL_OK;
    if(nx>=2){
      if(gk=="user"){
        Rng r((uint64_t)cfg["seed"].as_int(1)+99); std::vector<double> xs(nx); double x=a;
        int shape=(int)(cfg["grid_shape"].as_int(0)%4);
        for(unsigned i=0;i<nx;i++){
          double u=(nx>1)?(double)i/(double)(nx-1):0.0,pos;
          switch(shape){
            case 1: pos=1.0-std::pow(1.0-u,3.0); break;            // nodes cluster at the upper end
            case 2: pos=std::pow(u,3.0); break;                    // nodes cluster at the lower end
            case 3: pos=(u<0.5)?0.2*u:0.8+0.4*(u-0.5); break;      // two clusters and a wide gap
            default: pos=-1;
          }
          if(pos<0){ xs[i]=x; x+=r.uniform(0.05,1.0)*(b-a)/nx; } else xs[i]=a+(b-a)*pos;
        }
        for(unsigned i=1;i<nx;i++) if(!(xs[i]>xs[i-1])) xs[i]=xs[i-1]+1e-3*(b-a);
        rc=lib_call([&]{ live->Set_xrange(xs); });
      }else{
        if(gk=="log"&&a<1e-6*gscale) a=0.5*gscale;
        rc=lib_call([&]{ live->Set_xrange(a,b,gk=="log"?"log":"linear"); });
      }
    }else rc=lib_call([&]{ live->Set_xrange(a,a,"linear"); });
    if(rc!=CALL_OK){ c.violation("C15","exc:unexpected","set_xrange","Set_xrange threw \""+g_what+"\" for a valid grid"); return false; }
    grid=live->Get_xrange();
    Rng r((uint64_t)cfg["seed"].as_int(1)+7);
    ref.assign(nx*nrhos,Mat(nsun)); refs.assign(nx*(nsc?nsc:1),0.0);
    for(unsigned ix=0;ix<nx;ix++){
      for(unsigned ir=0;ir<nrhos;ir++){
        std::vector<double> comp(nsun*nsun); for(size_t k=0;k<comp.size();k++) comp[k]=r.uniform(-1,1);
        double* p=live->rho_ptr(ix,ir); for(size_t k=0;k<comp.size();k++) p[k]=comp[k];
        ref[ix*nrhos+ir]=from_components(nsun,&comp[0]);
      }
      for(unsigned is=0;is<nsc;is++){ double v=r.uniform(-1,1); live->scal_ptr(ix)[is]=v; refs[ix*nsc+is]=v; }
    }
    // every view holds what was written through it: the views of a freshly initialised solver do not overlap
    for(unsigned ix=0;ix<nx;ix++){
      for(unsigned ir=0;ir<nrhos;ir++){ std::vector<double> want=to_components(ref[ix*nrhos+ir]); double* p=live->rho_ptr(ix,ir);
        for(unsigned k=0;k<nsun*nsun;k++) if(!(std::fabs(p[k]-want[k])<=1e-13)){ c.violation("C10","views:overlap","ini","after initialisation the stored views overlap: a value written through one view was changed by writing through another"); return false; } }
      for(unsigned is=0;is<nsc;is++) if(live->scal_ptr(ix)[is]!=refs[ix*nsc+is]){ c.violation("C10","views:overlap","ini:scalar","after initialisation a scalar view overlaps another view"); return false; }
    }
    return true;
  }
  // initial switch settings, applied in a plan-chosen order
  void apply_switches(SimSolver* s,int order){
    static const int perms[6][5]={{0,1,2,3,4},{4,3,2,1,0},{3,4,0,1,2},{2,0,4,1,3},{1,3,0,4,2},{4,0,3,2,1}};
    const int* pm=perms[((order%6)+6)%6];
    for(int q=0;q<5;q++) switch(pm[q]){ case 0: s->Set_CoherentRhoTerms(c.sw.coh); break; case 1: s->Set_NonCoherentRhoTerms(c.sw.noncoh); break; case 2: s->Set_OtherRhoTerms(c.sw.other); break;
                                        case 3: s->Set_GammaScalarTerms(c.sw.gs); break; default: s->Set_OtherScalarTerms(c.sw.os); }
  }
  // what is in effect in the live solver (settings persist over Evolve, ini() and moves); unless the plan asks for every setter, only the setters
  // whose value changes are called, one at a time, as a user would: each alone must take effect in the next Evolve
  StepCfg applied; bool have_applied=false; bool apply_all=true;
  void apply_stepper(SimSolver* s,bool track=true){
    const gsl_odeiv2_step_type* t=sc.is_sim()?sim_stepper(sc.tableau,sc.bufmode,sc.dydt_in):wrapped_stepper(sc.name);
    bool all=!track||!have_applied||apply_all;
    int ncalled=0;
    if(all||applied.name!=sc.name||applied.tableau!=sc.tableau||applied.bufmode!=sc.bufmode||applied.dydt_in!=sc.dydt_in){ s->Set_GSL_step(t); ncalled++; }
    if(all||applied.adaptive!=sc.adaptive){ s->Set_AdaptiveStep(sc.adaptive); ncalled++; }
    if(all||applied.abs!=sc.abs){ s->Set_abs_error(sc.abs); ncalled++; }
    if(all||applied.rel!=sc.rel){ s->Set_rel_error(sc.rel); ncalled++; }
    if(all||applied.h!=sc.h){ s->Set_h(sc.h); ncalled++; }
    if(all||applied.nsteps!=sc.nsteps){ s->Set_NumSteps(sc.nsteps); ncalled++; }
    if(track){ applied=sc; have_applied=true; if(!all && ncalled==1) c.ctr->add("probe_single_setter_between_evolves"); }
  }
  void read_stepper(const Json& o){
    sc.name=o["name"].as_str("rkf45");
    static const char* ok[]={"rk2","rk4","rkf45","rkck","rk8pd","msadams","sim"}; bool found=false; for(int i=0;i<7;i++) if(sc.name==ok[i]) found=true; if(!found) sc.name="rkf45";
    sc.adaptive=o["adaptive"].as_bool(true); if(sc.name=="msadams") sc.adaptive=true;
    sc.abs=o["abs"].as_num(1e-9); sc.rel=o["rel"].as_num(1e-9); if(!(sc.abs>0)) sc.abs=1e-9; if(!(sc.rel>=0)) sc.rel=1e-9;
    sc.h=o["h"].as_num(1e-3); if(!(sc.h>0)) sc.h=1e-3;
    sc.nsteps=(unsigned)std::max(1LL,std::min(20000LL,o["nsteps"].as_int(200)));
    if(o.has("nsteps_override")) sc.nsteps=(unsigned)std::max(1LL,std::min(20000LL,o["nsteps_override"].as_int(5)));
    sc.tableau=(int)o["tableau"].as_int(3); sc.bufmode=(int)o["bufmode"].as_int(0); sc.dydt_in=o["dydt_in"].as_bool(true);
    sc.reject=(int)std::max(0LL,std::min(6LL,o["reject"].as_int(0))); sc.fail=(int)std::max(0LL,std::min(4LL,o["fail"].as_int(0)));
    if(!sc.adaptive){ sc.reject=0; sc.fail=0; }
  }

  double ymax(){
    double m=1e-300;
    for(unsigned ix=0;ix<nx;ix++){ for(unsigned ir=0;ir<nrhos;ir++){ double* p=live->rho_ptr(ix,ir); for(unsigned k=0;k<nsun*nsun;k++) m=std::max(m,std::fabs(p[k])); }
      for(unsigned is=0;is<nsc;is++) m=std::max(m,std::fabs(live->scal_ptr(ix)[is])); }
    return m;
  }
  // structural invariants after Evolve / moves: views and layout
  void check_views(const char* when,bool have_y){
    if(!c.out->ok) return;
    unsigned stride=nsun*nsun*nrhos+nsc;
    const double* base=live->rho_ptr(0,0);
    for(unsigned ix=0;ix<nx;ix++){
      for(unsigned ir=0;ir<nrhos;ir++){
        if(live->erho_ptr(ix,ir)!=live->rho_ptr(ix,ir)){ c.violation("C10","views:estate-not-realiased",when,"after Evolve the in-step view of node "+std::to_string(ix)+" matrix "+std::to_string(ir)+" does not coincide with the stored state"); return; }
        if(live->rho_ptr(ix,ir)!=base+ix*stride+ir*nsun*nsun){ c.violation("C04","views:layout",when,"stored views do not follow the node-major layout"); return; }
        if(live->rho_dim(ix,ir)!=nsun){ c.violation("C10","views:dimension",when,"a stored view has the wrong dimension"); return; }
      }
      if(nsc>0){
        if(live->escal_ptr(ix)!=live->scal_ptr(ix)){ c.violation("C10","views:estate-not-realiased",std::string(when)+":scalar","after Evolve the in-step scalar view does not coincide with the stored one"); return; }
        if(live->scal_ptr(ix)!=base+ix*stride+nrhos*nsun*nsun){ c.violation("C04","views:layout",std::string(when)+":scalar","scalar views do not follow the layout"); return; }
      }
    }
    long bid; int ub; size_t off;
    if(alloc_classify(base,(size_t)stride*nx*sizeof(double),&bid,&ub,&off)!=RANGE_LIB_BLOCK){ c.violation("C15","views:storage",when,"the stored state does not lie in a live block"); return; }
  }

  // an Evolve that ended in an exception: clock and stored state still belong together - either both as at entry, or both as the stepper was handed
  // them at the start of its last (failed) step; anything else makes a later Evolve integrate from a time the state is not at
  bool check_after_failure(double t_before,const std::vector<double>& before,const char* vprop){
    unsigned stride=nsun*nsun*nrhos+nsc; size_t n=(size_t)stride*nx; const double* now=live->rho_ptr(0,0); double t_now=live->Get_t();
    bool as_entry=(t_now==t_before && before.size()==n && memcmp(&before[0],now,n*sizeof(double))==0);
    bool as_last=(c.have_last_apply && t_now==c.last_apply_t && c.last_apply_y.size()==n && memcmp(&c.last_apply_y[0],now,n*sizeof(double))==0);
    c.ctr->add("probe_clock_and_state_after_failed_evolve");
    if(as_entry||as_last) return true;
    bool state_entry=(before.size()==n && memcmp(&before[0],now,n*sizeof(double))==0), state_last=(c.have_last_apply && c.last_apply_y.size()==n && memcmp(&c.last_apply_y[0],now,n*sizeof(double))==0);
    if((state_entry && !state_last && c.have_last_apply && t_now==c.last_apply_t && c.last_apply_t!=t_before) || (state_last && !state_entry && t_now==t_before && c.last_apply_t!=t_before)){
      char b[260]; snprintf(b,sizeof b,"after an Evolve that ended in \"%s\" Get_t() shows %.17g while the stored state is the one of t=%.17g: a later Evolve would integrate from a time the state is not at",g_what.c_str(),t_now,state_entry?t_before:c.last_apply_t);
      c.violation(vprop,"clock:state-mismatch-after-failure","evolve",b); return false;
    }
    // anything else is not judged. In particular GSL 2.7's fixed-step evolve advances *t by one step before it checks the error and restores y only,
    // so after a rejected fixed step the clock SQuIDS hands to GSL is one step ahead of the restored state: GSL's doing (its documentation promises
    // "t and y contain the values from last successful step"), present on the pinned tree, and not something a property of SQuIDS speaks about
    c.ctr->add("probe_after_failure_pair_not_recognised");
    return true;
  }

  void op_evolve(const Json& o){
    double dt=o["dt"].as_num(0.5); if(!(dt>=0)) dt=0; if(dt>20) dt=20;
    // a sanitizer report inside Evolve belongs to the property being checked when that is C04/C10 (the defect shows up as a memory error first)
    begin("evolve",(prop=="C04"||prop=="C10")?prop.c_str():(c.moved_in_run?"C10":"C15"));
    if(have_plan_sc) sc=plan_sc; else { plan_sc=sc; have_plan_sc=true; }
    // a fixed step count chosen for another (shorter, or empty) segment is raised to what this segment needs, as a user would before a longer
    // Evolve: with too few steps the error leaves even the loose bounds and GSL rejects the step, which says nothing about SQuIDS
    if(!sc.adaptive && !sc.is_sim() && sc.abs>=0.05 && dt>0){
      double per=(sc.name=="rk2")?0.004:(sc.name=="rk8pd"?0.15:0.04); unsigned need=(unsigned)std::min(20000.0,std::ceil(dt*9.0/per)+10);
      if(sc.nsteps<need){ sc.nsteps=need; plan_sc.nsteps=need; if(!need_apply){ need_apply=true; apply_all=false; } c.ctr->add("probe_fixed_step_count_raised_for_segment"); }
    }
    StepCfg saved=sc;
    if(hmin_raised){ sc.reject=0; sc.fail=0; if(sc.adaptive){ sc.abs=std::max(sc.abs,1e-4); sc.rel=std::max(sc.rel,1e-4); } if(sc.h<cur_hmin) sc.h=cur_hmin*10; }
    if(need_apply){ apply_stepper(live); need_apply=false; }
    else{ (void)(sc.is_sim()?sim_stepper(sc.tableau,sc.bufmode,sc.dydt_in):wrapped_stepper(sc.name)); }   // only re-arm the harness side of the stepper seam (which real stepper the wrapper delegates to)
    sc.reject=saved.reject&&!hmin_raised?saved.reject:0; 
    bool numerics=(any_override<0)?c.sw.any():(any_override==1);
    std::vector<double> before;
    { unsigned stride=nsun*nsun*nrhos+nsc; before.assign(live->rho_ptr(0,0),live->rho_ptr(0,0)+stride*nx); }
    double t_before=live->Get_t(); c.have_last_apply=false;
    c.log.clear(); c.rhs_evals=0; c.napply=0; c.nseen=0; c.distinct_inputs=0; c.rejections_fired=0; c.failures_fired=0;
    c.reject_budget=sc.reject; c.fail_budget=sc.fail; g_last_apply_y=0;
    c.toggle_at=(numerics&&o.has("pre_toggle"))?(int)std::max(1LL,std::min(12LL,o["pre_toggle"]["at"].as_int(1))):0; c.toggle_which=(int)(o.has("pre_toggle")?o["pre_toggle"]["which"].as_int(0):0); c.pre_count=0; c.toggled=false;
    int rc=lib_call([&]{ live->Evolve(dt); });
    c.reject_budget=0; c.fail_budget=0; c.toggle_at=0;
    bool toggled=c.toggled; c.toggled=false; if(toggled){ any_override=-1; c.ctr->add("probe_switch_toggled_inside_prederive"); }
    { StepCfg used=sc; sc=saved; sc.abs=used.abs; sc.rel=used.rel; }      // tolerances actually used enter the closed-form tolerance; the plan's settings stay
    applies_total+=c.napply; sim_time+=dt;
    c.ctr->add("rhs_evaluations",c.rhs_evals); c.ctr->add("stepper_applies",c.napply);
    c.ctr->add("fault_step_rejection_fired",c.rejections_fired); c.ctr->add("fault_apply_failure_fired",c.failures_fired);
    if(c.distinct_inputs>=2) c.ctr->add("probe_rhs_on_two_buffers");
    if(numerics){ c.ctr->add("cover_stepper_"+sc.name+(sc.adaptive?"_adaptive":"_fixed")); char mk[32]; snprintf(mk,sizeof mk,"cover_switch_mask_%d%d%d%d%d",c.sw.coh,c.sw.noncoh,c.sw.other,c.sw.gs,c.sw.os); c.ctr->add(mk);
      c.ctr->add("cover_nsun_"+std::to_string(nsun)); c.ctr->add("cover_nx_"+std::to_string(nx)); c.ctr->add("cover_nrhos_"+std::to_string(nrhos)); c.ctr->add("cover_nscalars_"+std::to_string(nsc)); }
    else c.ctr->add("cover_evolve_without_numerics");
    c.tr->ev("op#%d evolve dt=%.17g stepper=%s adaptive=%d sw=%d%d%d%d%d applies=%ld evals=%ld",c.opi,dt,sc.name.c_str(),sc.adaptive,c.sw.coh,c.sw.noncoh,c.sw.other,c.sw.gs,c.sw.os,c.napply,c.rhs_evals);
    shp("evolve:"+sc.name+(sc.adaptive?":a":":f")+(sc.is_sim()?":t"+std::to_string(sc.tableau)+"b"+std::to_string(sc.bufmode)+(sc.dydt_in?"d":""):"")); shp((long)(c.sw.coh|c.sw.noncoh<<1|c.sw.other<<2|c.sw.gs<<3|c.sw.os<<4)); shp((long)c.distinct_inputs);
    if(!c.out->ok) return;
    std::string evprop=(prop=="C10")?"C10":"C04";
    if(rc!=CALL_OK && !check_after_failure(t_before,before,evprop.c_str())) return;
    if(rc!=CALL_OK && hmin_raised && g_what.find("not making progress")!=std::string::npos){
      // with a raised lower step limit GSL may legitimately give up; the run is resynchronised by re-initialising the same configuration
      c.ctr->add("probe_gsl_gave_up_at_raised_hmin");
      Json cfg=Json::object(); cfg["nx"]=(int)nx; cfg["nsun"]=(int)nsun; cfg["nrhos"]=(int)nrhos; cfg["nscalars"]=(int)nsc; cfg["t0"]=t_ini; cfg["seed"]=(long long)(opiseed()); cfg["grid"]="lin"; cfg["xa"]=1.0; cfg["xb"]=2.0;
      Json ro=Json::object(); ro["cfg"]=cfg; op_reini(ro); return;
    }
    if(rc!=CALL_OK && !sc.adaptive && sc.abs<0.05 && g_what.find("(failure)")!=std::string::npos){
      // fixed stepping whose step misses the controller's tight bounds: GSL reports failure and Evolve must throw (it did); resynchronise
      c.ctr->add("probe_fixed_step_rejected_by_controller");
      Json cfg=Json::object(); cfg["nx"]=(int)nx; cfg["nsun"]=(int)nsun; cfg["nrhos"]=(int)nrhos; cfg["nscalars"]=(int)nsc; cfg["t0"]=t_ini; cfg["seed"]=(long long)(opiseed()); cfg["grid"]="lin"; cfg["xa"]=1.0; cfg["xb"]=2.0;
      Json ro=Json::object(); ro["cfg"]=cfg; op_reini(ro); return;
    }
    if(rc!=CALL_OK && toggled && g_what.find("(failure)")!=std::string::npos){
      // a right-hand side that changes discontinuously in mid-step may make a fixed step miss the controller's bounds: GSL's business; resynchronise
      Json cfg=Json::object(); cfg["nx"]=(int)nx; cfg["nsun"]=(int)nsun; cfg["nrhos"]=(int)nrhos; cfg["nscalars"]=(int)nsc; cfg["t0"]=t_ini; cfg["seed"]=(long long)(opiseed()); cfg["grid"]="lin"; cfg["xa"]=1.0; cfg["xb"]=2.0;
      Json ro=Json::object(); ro["cfg"]=cfg; op_reini(ro); return;
    }
    if(rc!=CALL_OK){ c.violation(evprop,"evolve:threw",sc.name,"Evolve threw \""+g_what+"\""); return; }
    if(numerics && c.rhs_evals>=2 && c.distinct_inputs>=2) nontrivial=true;
    if(numerics && dt>0 && !sc.adaptive && sc.abs>=0.05 && c.napply!=(long)sc.nsteps){
      char b[160]; snprintf(b,sizeof b,"fixed stepping was configured with %u steps but the stepper was applied %ld times (mode or step count lost?)",sc.nsteps,c.napply);
      c.violation(c.moved_in_run?"C10":evprop,"evolve:step-count",sc.name,b); return; }
    if(numerics && dt>0 && sc.adaptive && !sc.is_sim() && sc.nsteps>=40 && c.napply==(long)sc.nsteps && c.rejections_fired==0 && c.failures_fired==0) c.ctr->add("probe_adaptive_run_with_exactly_nsteps_applies");
    if(numerics && dt>0 && t_before+dt!=t_before && c.rhs_evals==0){ c.violation(evprop,"evolve:no-integration","switches","numerical terms are enabled but Evolve never evaluated the right-hand side"); return; }
    sum_dt+=dt; steps_total+=sc.adaptive?c.napply:sc.nsteps;
    // clock
    double t_now=live->Get_t(),t_expect=t_ini+sum_dt;
    double ctol=2.3e-16*(std::fabs(t_ini)+sum_dt)*(8+2*(double)steps_total);
    bool clock_bad=!(std::fabs(t_now-t_expect)<=ctol);
    char clockmsg[200]; snprintf(clockmsg,sizeof clockmsg,"Get_t() is %.17g after evolving, expected t_ini + sum dt = %.17g (tolerance %.3g)",t_now,t_expect,ctol);
    // in a C04 plan the state verdict comes first: an integration over the wrong interval is a C04 matter as well as a clock (C10) matter
    if(clock_bad && !(prop=="C04" && numerics && !sc.is_sim() && dt>0)){ c.violation("C10","clock:mismatch",numerics?"numerics":"no-numerics",clockmsg); return; }
    if(live->Get_t_initial()!=t_ini){ c.violation("C10","clock:t_ini-changed","evolve","Get_t_initial() changed during Evolve"); return; }
    check_views("evolve",numerics&&c.napply>0);
    if(!c.out->ok) return;
    unsigned stride=nsun*nsun*nrhos+nsc;
    if(!numerics){
      if(memcmp(&before[0],live->rho_ptr(0,0),stride*nx*sizeof(double))!=0){ c.violation("C10","state:changed-without-numerics","evolve","Evolve with all numerical terms disabled changed the stored state"); return; }
      unsigned npre=0; double tp=0; for(size_t i=0;i<c.log.size();i++) if(c.log[i].kind==0){ npre++; tp=c.log[i].t; if(c.log[i].self!=(const void*)live){ c.violation("C10","callback:wrong-object","PreDerive","PreDerive arrived at an object that is not the live solver"); return; } }
      if(npre<1||tp!=t_now){ c.violation("C10","callback:prederive-no-numerics","evolve","with numerics disabled PreDerive must be invoked once with the new time (calls: "+std::to_string(npre)+")"); return; }
      return;
    }
    // reference: closed form over the segment with the switches of this segment
    // at clocks of 1e13 and more t_before+dt is not t_before plus dt any more; the terms of such plans are time independent, so the closed form
    // over an interval of length dt is taken from 0 to dt (an adaptive run there is not judged: GSL trims its last step against the rounded clock)
    double rt0=big_clock?0.0:t_before, rt1=big_clock?dt:t_before+dt;
    for(unsigned ix=0;ix<nx;ix++){
      for(unsigned ir=0;ir<nrhos;ir++) ref[ix*nrhos+ir]=prob.advance(ix,ir,ref[ix*nrhos+ir],rt0,rt1,c.sw.coh,c.sw.noncoh,c.sw.other);
      for(unsigned is=0;is<nsc;is++) refs[ix*nsc+is]=prob.advance_scalar(ix,is,refs[ix*nsc+is],rt0,rt1,c.sw.gs,c.sw.os);
    }
    if(big_clock) c.ctr->add("probe_evolve_at_clock_beyond_1e13");
    if(sc.is_sim()||dt==0||toggled||(big_clock&&sc.adaptive)){
      // integration accuracy of the seeded tableaux is not judged; continue from the library's own state
      for(unsigned ix=0;ix<nx;ix++){ for(unsigned ir=0;ir<nrhos;ir++) ref[ix*nrhos+ir]=from_components(nsun,live->rho_ptr(ix,ir)); for(unsigned is=0;is<nsc;is++) refs[ix*nsc+is]=live->scal_ptr(ix)[is]; }
      acc_tol=0;
      return;
    }
    double ym=ymax(),tol;
    // adaptive: the controller bounds the local error of each accepted step by eps_abs+eps_rel*|y|; the global error is at most their sum times a
    // modest amplification. fixed: classical global error bound of an order-p method. Both are deliberately generous: a sign, index or time error is O(0.1..1).
    if(sc.adaptive) tol=1000.0*(double)std::max(1L,c.napply)*(sc.abs+sc.rel*ym)+1e-9*(ym+1);
    else{ double L=prob.lambda(t_before,t_before+dt)+4.0,h=dt/sc.nsteps; tol=100.0*(dt+1)*L*std::pow(L*h,sc.order())*(ym+1)+1e-9; }
    tol+=acc_tol; acc_tol=tol;      // the reference is advanced piecewise: errors of earlier segments are still in the library's state
    if(tol>1e-3){ acc_tol=0; c.ctr->add("probe_closed_form_skipped_loose_tolerance"); for(unsigned ix=0;ix<nx;ix++){ for(unsigned ir=0;ir<nrhos;ir++) ref[ix*nrhos+ir]=from_components(nsun,live->rho_ptr(ix,ir)); for(unsigned is=0;is<nsc;is++) refs[ix*nsc+is]=live->scal_ptr(ix)[is]; } return; }
    if(clock_bad && tol>1e-3){ c.violation("C10","clock:mismatch","numerics",clockmsg); return; }
    c.ctr->add("closed_form_comparisons");
    for(unsigned ix=0;ix<nx;ix++){
      for(unsigned ir=0;ir<nrhos;ir++){
        std::vector<double> want=to_components(ref[ix*nrhos+ir]); double* got=live->rho_ptr(ix,ir);
        for(unsigned k=0;k<nsun*nsun;k++) if(!(std::fabs(got[k]-want[k])<=tol)){
          char b[260]; snprintf(b,sizeof b,"node %u matrix %u component %u after Evolve to t=%.6g: library %.12g, closed form %.12g (tolerance %.3g, stepper %s %s)",ix,ir,k,t_now,got[k],want[k],tol,sc.name.c_str(),sc.adaptive?"adaptive":"fixed");
          c.violation(evprop,"state:closed-form-mismatch",sc.name+(sc.adaptive?":adaptive":":fixed"),b); return;
        }
      }
      for(unsigned is=0;is<nsc;is++){ double got=live->scal_ptr(ix)[is],want=refs[ix*nsc+is];
        if(!(std::fabs(got-want)<=tol)){ char b[200]; snprintf(b,sizeof b,"node %u scalar %u after Evolve: library %.12g, closed form %.12g (tolerance %.3g)",ix,is,got,want,tol); c.violation(evprop,"state:closed-form-mismatch",sc.name+":scalar",b); return; } }
    }
    if(clock_bad) c.violation("C10","clock:mismatch","numerics",clockmsg);
  }

  // an Evolve that ends in the library's exception (the stepper reports a hard error): nothing may be leaked; the solver is re-initialised afterwards
  void op_evolve_fail(const Json& o){
    begin("evolve_fail","C15");
    StepCfg keep=sc; sc.name="sim"; sc.adaptive=o["adaptive"].as_bool(true); sc.nsteps=5; sc.reject=0; sc.fail=0; sc.abs=sc.rel=0.1;
    apply_stepper(live);
    c.log.clear(); c.rhs_evals=0; c.napply=0; c.nseen=0;
    c.hard_fail_at=1+(long)(o["at"].as_int(0)%4);
    std::vector<double> before0; { unsigned stride=nsun*nsun*nrhos+nsc; before0.assign(live->rho_ptr(0,0),live->rho_ptr(0,0)+stride*nx); } double t_before0=live->Get_t(); c.have_last_apply=false;
    int rc=lib_call([&]{ live->Evolve(0.5); });
    bool fired=(c.hard_fail_at<0); c.hard_fail_at=0;
    if(fired && rc==CALL_EXCEPTION && !check_after_failure(t_before0,before0,prop=="C10"?"C10":(prop=="C04"?"C04":"C10"))){ sc=keep; need_apply=true; return; }
    sc=keep; need_apply=true;
    shp("evolve_fail");
    if(fired){ c.ctr->add("fault_stepper_hard_error_fired"); nontrivial=true;
      if(rc!=CALL_EXCEPTION){ c.violation("C04","evolve:error-swallowed","hard-error","the ODE stepper reported an error but Evolve returned normally"); return; } }
    // resynchronise: same configuration, fresh clock and state
    Json cfg=Json::object(); cfg["nx"]=(int)nx; cfg["nsun"]=(int)nsun; cfg["nrhos"]=(int)nrhos; cfg["nscalars"]=(int)nsc; cfg["t0"]=t_ini; cfg["seed"]=(long long)o["vs"].as_int(3); cfg["grid"]="lin"; cfg["xa"]=1.0; cfg["xb"]=2.0;
    Json ro=Json::object(); ro["cfg"]=cfg; op_reini(ro);
  }

  // step-size limits: integration must still succeed and be right; tight tolerances and injected rejections are incompatible with a raised
  // lower limit (GSL legitimately gives up when the controller asks for less than hmin), so they are switched off while it is raised
  void op_limits(const Json& o){
    begin("limits","C15");
    int a=(int)(o["hmin"].as_int(0)%4),b=(int)(o["hmax"].as_int(0)%3);
    static const double mins[]={2.2250738585072014e-308,1e-9,1e-6,1e-4}; static const double maxs[]={1.7976931348623157e308,0.5,0.05};
    hmin_raised=(a>=2);
    lib_call([&]{ live->Set_h_max(maxs[b]); live->Set_h_min(mins[a]); });
    cur_hmin=mins[a]; need_apply=true;
    shp("limits"); shp((long)a*3+b);
  }
  // Set_AnyNumerics overrides the flag derived from the five switches until the next switch setter recomputes it
  void op_any_numerics(const Json& o){
    begin("any_numerics","C15");
    bool on=o["on"].as_bool(false);
    lib_call([&]{ live->Set_AnyNumerics(on); });
    any_override=on?1:0;
    shp("any_numerics"); shp((long)on);
  }

  void op_switch(const Json& o){
    any_override=-1;
    int w=(int)(o["which"].as_int(0)%5); bool on=o["on"].as_bool(true);
    begin("switch","C15");
    // exactly the setter the user would call, including redundant calls: the derived "any numerics" flag must come out right whatever the order
    switch(w){ case 0: c.sw.coh=on; break; case 1: c.sw.noncoh=on; break; case 2: c.sw.other=on; break; case 3: c.sw.gs=on; break; default: c.sw.os=on; }
    lib_call([&]{ switch(w){ case 0: live->Set_CoherentRhoTerms(on); break; case 1: live->Set_NonCoherentRhoTerms(on); break; case 2: live->Set_OtherRhoTerms(on); break;
                              case 3: live->Set_GammaScalarTerms(on); break; default: live->Set_OtherScalarTerms(on); } });
    shp("switch"); shp((long)w*2+on);
  }

  bool reini_same=false;
  void dispose(SimSolver* old,bool reini_first){
    if(reini_first){
      // a moved-from solver may be re-initialised and used again: here it is re-initialised (to the sizes it had, or to a small problem), its
      // fresh state is written and read back through the views, its clock is advanced, and then it is destroyed
      unsigned n2=reini_same?nx:2,d2=reini_same?nsun:2,r2=reini_same?nrhos:1,s2=reini_same?nsc:0;
      int rc=lib_call([&]{ old->ini(n2,d2,r2,s2,1.5); });
      if(rc!=CALL_OK) c.violation("C10","move:reini-threw","moved-from","re-initialising a moved-from solver threw \""+g_what+"\"");
      else if(old->Get_t()!=1.5||old->Get_t_initial()!=1.5) c.violation("C10","clock:reini","moved-from","a re-initialised solver does not start at its initial time");
      else{
        unsigned stride2=d2*d2*r2+s2; long bid; int ub; size_t off;
        if(old->rho_dim(0,0)!=d2 || alloc_classify(old->rho_ptr(0,0),(size_t)stride2*n2*sizeof(double),&bid,&ub,&off)!=RANGE_LIB_BLOCK)
          c.violation(prop=="C15"?"C15":"C10","views:storage","moved-from","after re-initialising a moved-from solver its state does not lie in a live block of its own");   // "a fresh state" (C10) that is also memory the object does not own (C15)
        else{
          bool same=true;
          lib_call([&]{
            for(unsigned ix=0;ix<n2;ix++){ for(unsigned ir=0;ir<r2;ir++){ double* q=old->rho_ptr(ix,ir); for(unsigned k=0;k<d2*d2;k++) q[k]=1.0+ix*100+ir*40+k; } for(unsigned is=0;is<s2;is++) old->scal_ptr(ix)[is]=-1.0-ix*10-is; }
            for(unsigned ix=0;ix<n2;ix++){ for(unsigned ir=0;ir<r2;ir++){ const double* q=old->rho_ptr(ix,ir); for(unsigned k=0;k<d2*d2;k++) if(q[k]!=1.0+ix*100+ir*40+k) same=false; } for(unsigned is=0;is<s2;is++) if(old->scal_ptr(ix)[is]!=-1.0-ix*10-is) same=false; }
            old->Set_AnyNumerics(false); SimSolver* keep=c.live; c.live=old; old->Evolve(0.25); c.live=keep;
          });
          if(!same) c.violation("C10","views:overlap","moved-from","the state views of a re-initialised moved-from solver overlap");
          else if(old->Get_t()!=1.75) c.violation("C10","clock:reini","moved-from","a re-initialised moved-from solver does not advance its clock from its new initial time");
          if(live->Get_t_initial()!=t_ini) c.violation("C10","clock:move","moved-from","re-initialising the moved-from solver changed the clock of the solver that received its contents");
        }
      }
      c.ctr->add("probe_moved_from_reinitialised");
    }
    lib_call([&]{ delete old; });
  }
  void op_move(const Json& o,bool assign){
    begin(assign?"move_assign":"move_ctor","C10");
    c.moved_in_run=true; nontrivial=true;
    SimSolver* old=live; SimSolver* nw=0;
    double t_before=live->Get_t();
    double set_before[7]={old->Get_h(),old->Get_h_min(),old->Get_h_max(),old->Get_abs_error(),old->Get_rel_error(),old->Get_NumSteps(),(double)old->Get_nx()};
    std::vector<double> grid_before=old->Get_xrange();
    int rc;
    if(assign && o["self"].as_bool(false)){
      // a solver move-assigned onto itself stays exactly as it is
      unsigned stride=nsun*nsun*nrhos+nsc; std::vector<double> before(live->rho_ptr(0,0),live->rho_ptr(0,0)+stride*nx);
      rc=lib_call([&]{ SimSolver& me=*live; *live=std::move(me); });
      c.ctr->add("probe_self_move_assignment");
      if(rc!=CALL_OK){ c.violation("C10","move:threw","self","moving the solver onto itself threw \""+g_what+"\""); return; }
      if(live->Get_t()!=t_before||live->Get_t_initial()!=t_ini){ c.violation("C10","clock:move","self","the clock changed when the solver was moved onto itself"); return; }
      double set_after[7]={live->Get_h(),live->Get_h_min(),live->Get_h_max(),live->Get_abs_error(),live->Get_rel_error(),live->Get_NumSteps(),(double)live->Get_nx()};
      for(int q=0;q<7;q++) if(set_after[q]!=set_before[q]){ c.violation("C10","move:setting-lost","self","a setting changed when the solver was moved onto itself"); return; }
      if(live->Get_xrange()!=grid_before){ c.violation("C10","move:setting-lost","self-grid","the node grid changed when the solver was moved onto itself"); return; }
      long bid; int ub; size_t off;
      if(alloc_classify(live->rho_ptr(0,0),(size_t)stride*nx*sizeof(double),&bid,&ub,&off)!=RANGE_LIB_BLOCK){ c.violation(prop=="C15"?"C15":"C10","views:storage","self","after moving the solver onto itself its state does not lie in a live block"); return; }
      if(memcmp(&before[0],live->rho_ptr(0,0),before.size()*sizeof(double))!=0){ c.violation("C10","state:lost-in-move","self","the stored state changed when the solver was moved onto itself"); return; }
      check_views("move",false);
      shp("move_self"); return;
    }
    if(!assign) rc=lib_call([&]{ nw=new SimSolver(std::move(*old)); });
    else{
      bool fresh=o["fresh"].as_bool(true);
      bool evolved_target=o["evolve_target"].as_bool(false);
      rc=lib_call([&]{
        nw=new SimSolver(&c);
        if(evolved_target){
          // the destination has itself been configured like the source and evolved (so it carries cached stepper buffers of its own)
          nw->ini(nx,nsun,nrhos,nsc,t_ini); if(nx>=2) nw->Set_xrange(1.0,2.0,"linear");
          for(unsigned ix=0;ix<nx;ix++){ for(unsigned ir=0;ir<nrhos;ir++){ double* q=nw->rho_ptr(ix,ir); for(unsigned k=0;k<nsun*nsun;k++) q[k]=0.25; } for(unsigned is=0;is<nsc;is++) nw->scal_ptr(ix)[is]=0.5; }
          apply_switches(nw,0);
          { StepCfg ksc=sc; sc.name="rkf45"; sc.adaptive=true; sc.abs=sc.rel=1e-6; sc.h=1e-3; sc.reject=0; sc.fail=0; apply_stepper(nw,false); sc=ksc; }   // a benign stepper for the destination's own history
          SimSolver* keep=c.live; c.live=nw; nw->Evolve(0.05);
          // and it has answered a query on its own grid (whatever it remembers of that must not survive the assignment)
          if(nx>=2){ std::vector<double> oc(nsun*nsun,0.125); squids::SU_vector opq(oc); double junk=nw->GetExpectationValueD(opq,0,1.0+0.5/(nx-1)); (void)junk; squids::SU_vector st=nw->GetIntermediateState(0,1.0+0.5/(nx-1)); (void)st; }
          c.live=keep;
        }
        else if(!fresh){ nw->ini(1+(unsigned)(o["n"].as_int(1)%3),2+(unsigned)(o["d"].as_int(0)%5),1,(unsigned)(o["s"].as_int(0)%2),-2.0); }
        *nw=std::move(*old);
      });
    }
    if(rc!=CALL_OK){ c.violation("C10","move:threw",assign?"assign":"ctor","moving the solver threw \""+g_what+"\""); return; }
    live=nw; c.live=nw;
    reini_same=o["reini_same"].as_bool(false);
    dispose(old,o["reini_old"].as_bool(false));
    if(!c.out->ok) return;
    if(live->Get_t()!=t_before||live->Get_t_initial()!=t_ini){ c.violation("C10","clock:move",assign?"assign":"ctor","the clock changed when the solver was moved"); return; }
    { double set_after[7]={live->Get_h(),live->Get_h_min(),live->Get_h_max(),live->Get_abs_error(),live->Get_rel_error(),live->Get_NumSteps(),(double)live->Get_nx()};
      static const char* names[7]={"h","h_min","h_max","abs_error","rel_error","NumSteps","nx"};
      for(int q=0;q<7;q++) if(set_after[q]!=set_before[q]){ c.violation("C10","move:setting-lost",names[q],std::string("the setting ")+names[q]+" did not travel with the solver when it was moved"); return; }
      if(live->Get_xrange()!=grid_before){ c.violation("C10","move:setting-lost","grid","the node grid did not travel with the solver when it was moved"); return; } }
    // state must have travelled with the object
    for(unsigned ix=0;ix<nx&&c.out->ok;ix++) for(unsigned ir=0;ir<nrhos;ir++){
      std::vector<double> want=to_components(ref[ix*nrhos+ir]); double* got=live->rho_ptr(ix,ir);
      for(unsigned k=0;k<nsun*nsun;k++) if(!(std::fabs(got[k]-want[k])<=1e-3)){ c.violation("C10","state:lost-in-move",assign?"assign":"ctor","the stored state changed when the solver was moved"); return; }
    }
    check_views("move",false);
    shp(assign?"move_assign":"move_ctor"); shp((long)o["reini_old"].as_bool(false));
    c.tr->ev("op#%d %s",c.opi,assign?"move_assign":"move_ctor");
  }

  void op_reini(const Json& o){
    begin("reini","C15");
    Json cfgv=o["cfg"];
    if(o["same"].as_bool(false)){ cfgv["nx"]=(int)nx; cfgv["nsun"]=(int)nsun; cfgv["nrhos"]=(int)nrhos; cfgv["nscalars"]=(int)nsc; c.ctr->add("probe_reini_same_layout"); }   // the same layout at another initial time
    const Json& cfg=cfgv;
    configure(cfg,false);
    int rc=lib_call([&]{ live->ini(nx,nsun,nrhos,nsc,t_ini); });
    if(rc!=CALL_OK){ c.violation("C10","reini:threw","ini","ini threw \""+g_what+"\""); return; }
    if(live->Get_t()!=t_ini||live->Get_t_initial()!=t_ini){ c.violation("C10","clock:reini","ini","after re-initialisation Get_t() and Get_t_initial() must equal the new initial time"); if(!c.out->ok) return; }
    if(!setup_state(cfg)) return;
    check_views("reini",false);
    // views must not overlap: write a distinct value through each view and read all back
    shp("reini"); shp((long)nx*1000+nsun*100+nrhos*10+nsc);
    c.tr->ev("op#%d reini nx=%u nsun=%u nrhos=%u nsc=%u",c.opi,nx,nsun,nrhos,nsc);
  }

  // ---- expectation values (C05)
  double dense_expect(const Mat& rho,const Mat& O,double x,unsigned irho,double tau,double* maxphase){
    double v=0,mp=0;
    for(unsigned j=0;j<nsun;j++) for(unsigned k=0;k<nsun;k++){
      double ph=(prob.level(x,irho,j)-prob.level(x,irho,k))*tau; mp=std::max(mp,std::fabs(ph));
      // Tr(rho_S O), rho_S[j][k] = rho[j][k] exp(-i (w_j-w_k) tau)
      v+=(rho.m[j][k]*cplx(std::cos(ph),-std::sin(ph))*O.m[k][j]).real();
    }
    if(maxphase) *maxphase=mp;
    return v;
  }
  void op_expect(const Json& o){
    std::string kind=o["kind"].as_str("node");
    unsigned ir=(unsigned)(o["irho"].as_int(0)%nrhos);
    Rng r((uint64_t)o["vs"].as_int(1));
    std::vector<double> oc(nsun*nsun); for(size_t k=0;k<oc.size();k++) oc[k]=r.uniform(-1,1);
    Mat O=from_components(nsun,&oc[0]);
    double tau=live->Get_t()-t_ini;      // elapsed since the initial time the harness passed to ini(), not the one the library remembers
    begin("expect:"+kind,prop=="C05"?"C05":"C15");
    shp("expect:"+kind);
    squids::SU_vector op; lib_call([&]{ op=squids::SU_vector(oc); });
    double got=0; int rc=CALL_OK; c.log.clear();
    auto cleanup=[&]{ lib_call([&]{ op=squids::SU_vector(); }); };
    if(kind=="node"||kind=="node_avg"){
      unsigned ix=(unsigned)(o["ix"].as_int(0)%nx);
      double x=grid.size()>ix?grid[ix]:0.0;
      Mat rho=from_components(nsun,live->rho_ptr(ix,ir));
      double mp; double want=dense_expect(rho,O,x,ir,tau,&mp);
      if(kind=="node") rc=lib_call([&]{ got=live->GetExpectationValue(op,ir,ix); });
      else{ std::vector<bool> avr(nsun*(nsun-1)/2+1); double scale=4*(mp+1)+10; rc=lib_call([&]{ got=live->GetExpectationValue(op,ir,ix,scale,avr); }); }
      cleanup();
      if(rc!=CALL_OK){ c.violation("C05","expect:threw",kind,"GetExpectationValue threw \""+g_what+"\""); return; }
      double tol=1e-12*(1+mp)*nsun*nsun*(rho.maxabs()*O.maxabs()+1e-300);
      if(!(std::fabs(got-want)<=tol)){ char b[220]; snprintf(b,sizeof b,"GetExpectationValue(node %u, matrix %u) = %.15g, Tr(rho_S O) = %.15g (t-t_ini=%.6g, tolerance %.3g)",ix,ir,got,want,tau,tol); c.violation("C05","expect:mismatch",kind,b); return; }
      for(size_t i=0;i<c.log.size();i++) if(c.log[i].kind==6 && (c.log[i].t!=x||c.log[i].idx!=ir)){ c.violation("C05","expect:h0-argument",kind,"H0 was not evaluated at the node's x and the requested matrix index"); return; }
      c.ctr->add("expect_node_checked");
      return;
    }
    // x forms need at least two nodes
    if(nx<2){ cleanup(); return; }
    if(kind=="node_vs_x_avg"){
      // the interpolating averaging forms agree with the node-indexed averaging form at every node, whatever the scale averages away
      unsigned ix=(unsigned)(o["ix"].as_int(0)%nx); double xn=grid[ix];
      Mat rho=from_components(nsun,live->rho_ptr(ix,ir)); double mp; (void)dense_expect(rho,O,xn,ir,tau,&mp);
      static const double fr[]={0.3,0.7,1.5,1e6}; double scale=(mp>0?mp:1.0)*fr[(size_t)(o["edge"].as_int(0)&3)];
      std::vector<bool> a1(nsun*(nsun-1)/2+1),a2(a1.size()),a3(a1.size()); double v1=0,v2=0,v3=0;
      rc=lib_call([&]{ v1=live->GetExpectationValue(op,ir,ix,scale,a1); v2=live->GetExpectationValueD(op,ir,xn,scale,a2);
                       squids::SQuIDS::expectationValueDBuffer buf(nsun); v3=live->GetExpectationValueD(op,ir,xn,buf,scale,a3); });
      cleanup();
      if(rc!=CALL_OK){ c.violation("C05","expect:threw",kind,"an averaging query at a node threw \""+g_what+"\""); return; }
      double tol=1e-12*(1+mp)*nsun*nsun*(rho.maxabs()*O.maxabs()+1e-300);
      if(!(std::fabs(v1-v2)<=tol)||!(std::fabs(v1-v3)<=tol)){ char b[260]; snprintf(b,sizeof b,"at node %u (x=%.6g) with averaging scale %.6g: node-indexed form %.15g, interpolating forms %.15g and %.15g (tolerance %.3g)",ix,xn,scale,v1,v2,v3,tol); c.violation("C05","expect:node-disagreement",kind,b); return; }
      if(a1!=a2||a1!=a3){ c.violation("C05","expect:node-disagreement",std::string(kind)+":flags","the averaged-out flags reported by the interpolating forms at a node differ from the node-indexed form's"); return; }
      c.ctr->add("expect_node_vs_x_averaging_checked");
      return;
    }
    double x=o["x"].as_num(0.5);           // position relative to the grid: 0..1 inside, <0 below, >1 above
    double xa=grid.front(),xb=grid.back();
    double xi=xa+x*(xb-xa);
    if(o["at_node"].as_bool(false)){ xi=grid[(size_t)(o["ix"].as_int(0)%nx)]; }
    int edge=(int)o["edge"].as_int(0);     // +-n: n units in the last place outside the last / first node
    if(edge>0){ xi=xb; for(int q=0;q<edge;q++) xi=std::nextafter(xi,1e300); }
    if(edge<0){ xi=xa; for(int q=0;q<-edge;q++) xi=std::nextafter(xi,-1e300); }
    bool outside=(xi<xa||xi>xb);
    size_t k=0; if(!outside){ while(k+2<nx && grid[k+1]<xi) k++; }
    double f=outside?0:(xi-grid[k])/(grid[k+1]-grid[k]);
    Mat rho(nsun);
    if(!outside) rho=from_components(nsun,live->rho_ptr((unsigned)k,ir)).scaled(1-f)+from_components(nsun,live->rho_ptr((unsigned)k+1,ir)).scaled(f);
    double mp=0; double want=outside?0:dense_expect(rho,O,xi,ir,tau,&mp);
    squids::SU_vector inter;
    // optionally preceded by an averaging query at the same x and time with a reachable scale and/or another matrix index, through the same
    // scratch buffer: what it leaves behind must not influence the query that is judged
    int pre=(int)o["pre_avg"].as_int(0); unsigned ir2=(pre&2)?(ir+1)%nrhos:ir; double pscale=(pre&4)?1e-3:0.5;
    if(pre && !outside && (kind=="x_avg"||kind=="x"||kind=="x_buf_avg"||kind=="x_buf")){
      if(kind=="x_buf_avg"||kind=="x_buf"){
        std::vector<bool> avr0(nsun*(nsun-1)/2+1),avr(nsun*(nsun-1)/2+1); double scale=4*(mp+1)+10; double junk=0;
        rc=lib_call([&]{ squids::SQuIDS::expectationValueDBuffer buf(nsun); junk=live->GetExpectationValueD(op,ir2,xi,buf,pscale,avr0);
                         if(kind=="x_buf_avg") got=live->GetExpectationValueD(op,ir,xi,buf,scale,avr); else got=live->GetExpectationValueD(op,ir,xi,buf); });
        (void)junk; c.ctr->add("expect_preceded_by_averaging");
        goto judged;
      }else{
        std::vector<bool> avr0(nsun*(nsun-1)/2+1); double junk=0;
        int r0=lib_call([&]{ junk=live->GetExpectationValueD(op,ir2,xi,pscale,avr0); }); (void)junk; (void)r0;
        c.log.clear(); c.ctr->add("expect_preceded_by_averaging");
      }
    }
    if(kind=="x") rc=lib_call([&]{ got=live->GetExpectationValueD(op,ir,xi); });
    else if(kind=="x_buf"){ rc=lib_call([&]{ squids::SQuIDS::expectationValueDBuffer buf(nsun); got=live->GetExpectationValueD(op,ir,xi,buf); }); }
    else if(kind=="x_avg"){ std::vector<bool> avr(nsun*(nsun-1)/2+1); double scale=4*(mp+1)+10; rc=lib_call([&]{ got=live->GetExpectationValueD(op,ir,xi,scale,avr); }); }
    else if(kind=="x_buf_avg"){ std::vector<bool> avr(nsun*(nsun-1)/2+1); double scale=4*(mp+1)+10; rc=lib_call([&]{ squids::SQuIDS::expectationValueDBuffer buf(nsun); got=live->GetExpectationValueD(op,ir,xi,buf,scale,avr); }); }
    else { rc=lib_call([&]{ inter=live->GetIntermediateState(ir,xi); }); }
    judged:
    std::vector<double> ic; if(rc==CALL_OK && kind=="state") lib_call([&]{ ic=inter.GetComponents(); inter=squids::SU_vector(); });
    cleanup();
    if(outside){
      c.ctr->add(xi<xa?"expect_below_range":"expect_above_range");
      if(rc!=CALL_EXCEPTION){ char b[200]; snprintf(b,sizeof b,"x=%.6g lies %s the node range [%.6g,%.6g] but was answered instead of rejected",xi,xi<xa?"below":"above",xa,xb); c.violation("C05","expect:out-of-range-answered",std::string(kind)+(xi<xa?":below":":above"),b); }
      return;
    }
    if(rc!=CALL_OK){ c.violation("C05","expect:threw",kind,"the query threw \""+g_what+"\" for x inside the node range"); return; }
    if(kind=="state"){
      std::vector<double> wc=to_components(rho);
      for(unsigned q=0;q<nsun*nsun;q++) if(!(std::fabs(ic[q]-wc[q])<=1e-13*(rho.maxabs()+1e-300)*nsun)){ char b[200]; snprintf(b,sizeof b,"GetIntermediateState(x=%.6g) component %u is %.15g, convex combination gives %.15g",xi,q,ic[q],wc[q]); c.violation("C05","expect:interpolation",kind,b); return; }
      c.ctr->add("expect_state_checked"); return;
    }
    double tol=1e-12*(1+mp)*nsun*nsun*(rho.maxabs()*O.maxabs()+1e-300);
    if(!(std::fabs(got-want)<=tol)){ char b[240]; snprintf(b,sizeof b,"%s(x=%.6g, matrix %u) = %.15g, reference %.15g (bracket %zu, weight %.6g, t-t_ini=%.6g, tolerance %.3g)",kind.c_str(),xi,ir,got,want,k,f,tau,tol); c.violation("C05","expect:mismatch",kind,b); return; }
    bool h0seen=false;
    for(size_t i=0;i<c.log.size();i++) if(c.log[i].kind==6){
      if(c.log[i].t==xi && c.log[i].idx==ir) h0seen=true;
      if(c.log[i].t!=xi||(c.log[i].idx!=ir&&c.log[i].idx!=ir2)){ c.violation("C05","expect:h0-argument",kind,"H0 was not evaluated at x itself"); return; } }
    if(!h0seen){ c.violation("C05","expect:h0-argument",kind,"H0 was never evaluated"); return; }
    c.ctr->add("expect_x_checked");
  }

  // PreDerive outside the stepper (Evolve without numerics, or the evolve loop's own first evaluation): in a C05 plan the callback asks the object for
  // an expectation value, which must be the one at the time it has just been told
  static void pre_hook_tramp(void* run,SimSolver* self,double t){ ((Run*)run)->pre_hook(self,t); }
  void pre_hook(SimSolver* self,double t){
    if(prop!="C05" || self!=live || !c.out->ok || c.rhs_evals>0 || c.napply>0) return;
    bool numerics=(any_override<0)?c.sw.any():(any_override==1); if(numerics) return;      // the stored state is the current state only when nothing integrates
    int sc=verif::alloc_in_scope(); verif::alloc_scope(0);                                   // the callback's own bookkeeping is the user's, not the library's
    {
      std::vector<double> oc(nsun*nsun); for(size_t k=0;k<oc.size();k++) oc[k]=0.1+0.07*k;
      Mat O=from_components(nsun,&oc[0]); Mat rho=from_components(nsun,self->rho_ptr(0,0));
      double x=grid.size()>0?grid[0]:0.0,mp=0; double want=dense_expect(rho,O,x,0,t-t_ini,&mp);
      double got=0; bool threw=false;
      verif::alloc_scope(sc);
      try{ squids::SU_vector op(oc); got=self->GetExpectationValue(op,0,0); }catch(std::exception&){ threw=true; }
      verif::alloc_scope(0);
      if(!threw){
        double tol=1e-12*(1+mp)*nsun*nsun*(rho.maxabs()*O.maxabs()+1e-300);
        c.ctr->add("expect_inside_prederive_checked");
        if(!(std::fabs(got-want)<=tol)){ char b[260]; snprintf(b,sizeof b,"GetExpectationValue asked from inside PreDerive(t=%.6g) during an Evolve without numerics returns %.15g, Tr(rho_S O) at the announced time is %.15g (tolerance %.3g)",t,got,want,tol); c.violation("C05","expect:mismatch","inside-prederive",b); }
      }
    }
    verif::alloc_scope(sc);
  }

  void op_second_solver(const Json& o){
    // another solver of another dimension on the same simulated thread (the interpolation scratch is thread local and sized by its first user)
    begin("second_solver",prop=="C05"?"C05":"C15");
    unsigned d2=2+(unsigned)(o["d"].as_int(0)%5); if(d2==nsun) d2=2+(d2-2+1)%5;
    if(o["same_dim"].as_bool(false)) d2=nsun;      // or of the same dimension with another layout: whatever the scratch remembers of one solver must not leak into the other's answers
    struct Mini: public squids::SQuIDS{
      double w[6];
      squids::SU_vector H0(double x,unsigned) const{ squids::SU_vector h(nsun); Mat m(nsun); for(unsigned k=0;k<nsun;k++) m.m[k][k]=w[k]*x; std::vector<double> cc=to_components(m); for(unsigned k=0;k<nsun*nsun;k++) h[k]=cc[k]; return h; }
      double* rp(unsigned ix){ return &state[ix].rho[0][0]; }
    };
    Rng r((uint64_t)o["vs"].as_int(5)+d2);
    std::vector<double> oc(d2*d2),s0(d2*d2),s1(d2*d2); for(unsigned k=0;k<d2*d2;k++){ oc[k]=r.uniform(-1,1); s0[k]=r.uniform(-1,1); s1[k]=r.uniform(-1,1); }
    double wv[6]; for(int k=0;k<6;k++) wv[k]=r.uniform(-2,2);
    double xq=1.0+r.uniform(0,1),tau=0.7,t0=0.0; bool avg=o["avg"].as_bool(false);
    // a third form of query, derived from the op's value seed so that existing plans keep their shape: the node-indexed averaging overload
    // GetExpectationValue(op,irho,node,scale,avr), first by the live solver, then by the second one at one of its two nodes
    bool nodeavg=o.has("node_avg")?o["node_avg"].as_bool(false):(((uint64_t)o["vs"].as_int(5))%4==3);
    unsigned node2=(unsigned)(((uint64_t)o["vs"].as_int(5)/4)%2);
    if(nodeavg){ xq=1.0+node2; c.ctr->add("probe_second_solver_node_averaging_form"); }
    // mirrored: the two solvers are asked at the same x, matrix index and time, one right after the other
    bool mirror=(!nodeavg && d2==nsun && nx>=2 && o["mirror"].as_bool(false) && grid.front()<1.95 && grid.back()>std::max(grid.front(),1.0));
    if(mirror){ double lo=std::max(grid.front(),1.0),hi=std::min(grid.back(),2.0); xq=lo+(hi-lo)*r.uniform(0.05,0.95); tau=0.0; t0=live->Get_t(); c.ctr->add("probe_second_solver_mirrors_first"); }
    double got=0;
    int rc=lib_call([&]{
      Mini s2; for(int k=0;k<6;k++) s2.w[k]=wv[k];
      s2.ini(2,d2,1,0,t0); s2.Set_xrange(1.0,2.0,"linear");
      for(unsigned k=0;k<d2*d2;k++){ s2.rp(0)[k]=s0[k]; s2.rp(1)[k]=s1[k]; }
      s2.Evolve(tau);      // no numerics: only the clock advances
      if(mirror){ squids::SU_vector opm(oc); std::vector<bool> avr(d2*(d2-1)/2+1); SimSolver* keep=c.live;
        double junk=avg?live->GetExpectationValueD(opm,0,xq,1e9,avr):live->GetExpectationValueD(opm,0,xq); (void)junk; (void)keep; }
      else if(nodeavg){ std::vector<double> om(nsun*nsun,0.25); squids::SU_vector opm(om); std::vector<bool> avr(nsun*(nsun-1)/2+1); double junk=live->GetExpectationValue(opm,0,0,1e9,avr); (void)junk; }
      else if(nx>=2){
        // the first solver has used the same form of query on this thread before the second one does: whatever scratch that form keeps per thread
        // was last shaped by a solver of another dimension
        std::vector<double> om(nsun*nsun,0.25); squids::SU_vector opm(om); std::vector<bool> avr(nsun*(nsun-1)/2+1); double xm=0.5*(grid.front()+grid.back());
        double junk=avg?live->GetExpectationValueD(opm,0,xm,1e9,avr):live->GetExpectationValueD(opm,0,xm); (void)junk;
      }
      squids::SU_vector opv(oc);
      if(nodeavg){ std::vector<bool> avr(d2*(d2-1)/2+1); got=s2.GetExpectationValue(opv,0,node2,1e9,avr); }
      else if(avg){ std::vector<bool> avr(d2*(d2-1)/2+1); got=s2.GetExpectationValueD(opv,0,xq,1e9,avr); }
      else got=s2.GetExpectationValueD(opv,0,xq);
    });
    shp("second_solver"); shp((long)d2);
    if(rc!=CALL_OK){ c.violation("C05","expect:threw","second-solver","a second solver of dimension "+std::to_string(d2)+" on the same thread threw \""+g_what+"\""); return; }
    double f=xq-1.0; Mat rho=from_components(d2,&s0[0]).scaled(1-f)+from_components(d2,&s1[0]).scaled(f); Mat O=from_components(d2,&oc[0]);
    double want=0,mp=0;
    for(unsigned j=0;j<d2;j++) for(unsigned k=0;k<d2;k++){ double ph=(wv[j]-wv[k])*xq*tau; mp=std::max(mp,std::fabs(ph)); want+=(rho.m[j][k]*cplx(std::cos(ph),-std::sin(ph))*O.m[k][j]).real(); }
    double tol=1e-12*(1+mp)*d2*d2*(rho.maxabs()*O.maxabs()+1e-300);
    if(!(std::fabs(got-want)<=tol)){ char b[220]; snprintf(b,sizeof b,"a second solver of dimension %u on the same thread (the first one has dimension %u): GetExpectationValueD = %.15g, reference %.15g",d2,nsun,got,want); c.violation("C05","expect:mismatch","second-solver",b); return; }
    c.ctr->add("expect_second_solver_checked");
  }

  void op_bad_call(const Json& o){
    std::string kind=o["kind"].as_str("xrange_size");
    begin("bad_call:"+kind,"C15");
    shp("bad:"+kind);
    int rc=CALL_OK;
    std::vector<double> before=live->Get_xrange();
    if(kind=="xrange_size"){ std::vector<double> xs(nx+1,1.0); for(size_t i=0;i<xs.size();i++) xs[i]=1.0+i; rc=lib_call([&]{ live->Set_xrange(xs); }); }
    else if(kind=="xrange_unsorted"){ if(nx<2) return; std::vector<double> xs(nx); for(size_t i=0;i<nx;i++) xs[i]=10.0-i; rc=lib_call([&]{ live->Set_xrange(xs); }); }
    else if(kind=="xrange_scale"){ rc=lib_call([&]{ live->Set_xrange(1.0,2.0,"cubic"); }); }
    else if(kind=="xrange_log0"){ rc=lib_call([&]{ live->Set_xrange(0.0,2.0,"log"); }); }
    else if(kind=="ini_dim7"||kind=="ini_dim1"){
      // re-initialisation with an unsupported Hilbert dimension ends in the vector constructor's exception half way through ini();
      // nothing may leak or be touched out of bounds, and the object can be initialised properly afterwards
      unsigned bad=(kind=="ini_dim7")?7u:1u;
      unsigned nx2=nx+(unsigned)(o["grow"].as_int(0)%4);
      rc=lib_call([&]{ live->ini(nx2,bad,nrhos,nsc,t_ini); });
      if(rc!=CALL_EXCEPTION) c.ctr->add("probe_bad_call_not_rejected");
      else{
        // between the failed call and the next successful ini() the object is still the user's: the grid can be set and read, and whatever
        // the node arrays hold must not refer to storage that has been released
        c.ctr->add("probe_use_after_failed_ini");
        if(nx2>=2 && live->Get_nx()==nx2) lib_call([&]{ live->Set_xrange(1.0,2.0,"lin"); std::vector<double> g=live->Get_xrange(); (void)g; (void)live->Get_i(1.5); });
        unsigned dd=live->rho_dim(0,0);
        if(dd!=0){ long bid; int ub; size_t off;
          if(alloc_classify(live->rho_ptr(0,0),(size_t)dd*dd*sizeof(double),&bid,&ub,&off)!=RANGE_LIB_BLOCK){ c.violation("C15","views:storage","failed-ini","after an ini() that ended in an exception node 0 still refers to components that do not lie in a live block"); return; } }
      }
      Json cfg=Json::object(); cfg["nx"]=(int)nx; cfg["nsun"]=(int)nsun; cfg["nrhos"]=(int)nrhos; cfg["nscalars"]=(int)nsc; cfg["t0"]=t_ini; cfg["seed"]=(long long)opiseed(); cfg["grid"]="lin"; cfg["xa"]=1.0; cfg["xb"]=2.0;
      Json ro=Json::object(); ro["cfg"]=cfg; op_reini(ro); return;
    }
    else if(kind=="expect_dim"){
      // an operator of another dimension handed to an expectation-value query: the call ends in the library's exception, and until then nothing
      // outside the operands and the solver's own buffers may be read (the scratch of the evolution is sized by the solver's dimension)
      unsigned m=2+(unsigned)(o["grow"].as_int(0)+o["variant"].as_int(0))%5; if(m==nsun) m=(nsun==6)?2+(unsigned)(o["grow"].as_int(0)%4):nsun+1;
      int variant=(int)(o["variant"].as_int(0)%6); if(nx<2) variant%=2;
      unsigned ir=(unsigned)(o["grow"].as_int(0)%nrhos),ix=(unsigned)(o["variant"].as_int(0)%nx);
      Rng r((uint64_t)opiseed()); std::vector<double> oc(m*m); for(size_t k=0;k<oc.size();k++) oc[k]=r.uniform(-1,1);
      double xi=grid.size()>=2?0.5*(grid.front()+grid.back()):0.0; double got=0;
      std::vector<double> st_before(live->rho_ptr(0,0),live->rho_ptr(0,0)+(nsun*nsun*nrhos+nsc)*nx);
      rc=lib_call([&]{
        squids::SU_vector op(oc); std::vector<bool> avr(m*(m-1)/2+1);
        switch(variant){
          case 0: got=live->GetExpectationValue(op,ir,ix); break;
          case 1: got=live->GetExpectationValue(op,ir,ix,1e9,avr); break;
          case 2: got=live->GetExpectationValueD(op,ir,xi); break;
          case 3: got=live->GetExpectationValueD(op,ir,xi,1e9,avr); break;
          case 4:{ squids::SQuIDS::expectationValueDBuffer buf(nsun); got=live->GetExpectationValueD(op,ir,xi,buf); break; }
          default:{ squids::SQuIDS::expectationValueDBuffer buf(nsun); got=live->GetExpectationValueD(op,ir,xi,buf,1e9,avr); }
        }
      });
      (void)got; c.ctr->add(m>nsun?"probe_expect_operator_larger_than_solver":"probe_expect_operator_smaller_than_solver");
      shp((long)variant*10+(m>nsun));
      if(rc!=CALL_EXCEPTION) c.ctr->add("probe_bad_call_not_rejected");
      if(memcmp(&st_before[0],live->rho_ptr(0,0),st_before.size()*sizeof(double))!=0){ c.violation("C15","state:changed-by-query","expect_dim","an expectation-value query with an operator of another dimension changed the stored state"); }
      return;
    }
    else if(kind=="get_i"){ if(nx<2) return; double xo=o["above"].as_bool(true)?grid.back()+1.0:grid.front()-1.0; rc=lib_call([&]{ (void)live->Get_i(xo); }); }
    else return;
    if(rc!=CALL_EXCEPTION) c.ctr->add("probe_bad_call_not_rejected");   // rejection of these calls is a C17 matter; here only memory safety is judged
    if(live->Get_xrange()!=before){ grid=live->Get_xrange(); }
  }

  void run_op(const Json& o){
    std::string op=o["op"].as_str();
    if(op=="evolve") op_evolve(o);
    else if(op=="evolve_fail") op_evolve_fail(o);
    else if(op=="limits") op_limits(o);
    else if(op=="any_numerics") op_any_numerics(o);
    else if(op=="switch") op_switch(o);
    else if(op=="stepper"){ read_stepper(o); plan_sc=sc; have_plan_sc=true; need_apply=true; apply_all=o["all"].as_bool(true); shp("stepper:"+sc.name); }
    else if(op=="tweak"){
      // one setting changed on its own between two Evolve calls
      if(!have_plan_sc){ plan_sc=sc; have_plan_sc=true; }
      std::string w=o["which"].as_str("abs"); double v=o["value"].as_num(1e-10);
      if(w=="abs"&&v>0) plan_sc.abs=v; else if(w=="rel"&&v>0) plan_sc.rel=v; else if(w=="h"&&v>0) plan_sc.h=v;
      else if(w=="nsteps") plan_sc.nsteps=(unsigned)std::max(1LL,std::min(20000LL,(long long)plan_sc.nsteps*2));
      else if(w=="adaptive"&&plan_sc.name!="msadams"){ plan_sc.adaptive=!plan_sc.adaptive; if(!plan_sc.adaptive){ plan_sc.reject=0; plan_sc.fail=0; } }
      need_apply=true; apply_all=false; shp("tweak:"+w);
    }
    else if(op=="move_ctor") op_move(o,false);
    else if(op=="move_assign") op_move(o,true);
    else if(op=="reini") op_reini(o);
    else if(op=="expect") op_expect(o);
    else if(op=="second_solver") op_second_solver(o);
    else if(op=="bad_call") op_bad_call(o);
  }
};

// ---------------------------------------------------------------------------------------------
struct SolverEngine: Engine{
  const char* name() const{ return "solversim"; }
  void init(){ gsl_set_error_handler_off(); }

  static Json gen_cfg(Rng& r,bool want_grid){
    Json c=Json::object();
    static const int nxw[]={1,1,2,2,2,3,3,4,5,9}; int nx=nxw[r.below(10)]; if(want_grid&&nx<2) nx=2+(int)r.below(3);
    c["nx"]=nx; c["nsun"]=(int)r.weighted({0,0,25,30,20,13,12}); c["nrhos"]=(int)r.weighted({0,55,30,15}); c["nscalars"]=(int)r.weighted({40,30,20,10});
    c["t0"]=r.chance(0.5)?0.0:r.uniform(-3,5); c["seed"]=(long long)r.below(1000000);
    c["grid_scale"]=r.chance(0.06)?1e-17:1.0;
    int gk=(int)r.weighted({50,25,25}); c["grid"]=gk==0?"lin":(gk==1?"log":"user"); c["grid_shape"]=(int)r.below(4); c["xa"]=r.uniform(0.5,2.0); c["xb"]=r.uniform(2.5,6.0);
    return c;
  }
  static Json gen_stepper(Rng& r,double dt,double lambda_hint){
    Json o=Json::object(); o["op"]="stepper";
    int k=(int)r.weighted({5,12,16,12,10,10,35});
    static const char* names[]={"rk2","rk4","rkf45","rkck","rk8pd","msadams","sim"};
    o["name"]=names[k];
    bool adaptive=(k==5)?true:r.chance(k==6?0.6:0.5);
    o["adaptive"]=adaptive;
    static const double eps[]={1e-6,1e-10,1e-10,1e-10,1e-12,1e-9,1e-6};   // rk2 adaptive at tight tolerances needs thousands of steps: its closed-form comparison is mostly skipped, the per-call oracle is not
    // fixed stepping through a driver that owns a controller fails (GSL_FAILURE) whenever a step misses the controller's bounds: keep them loose there
    o["abs"]=adaptive?eps[k]:0.1; o["rel"]=adaptive?eps[k]:0.1;
    if(!adaptive && k!=6 && r.chance(0.15)){ o["abs"]=1e-13; o["rel"]=1e-13; o["nsteps_override"]=r.range(2,20); }   // a fixed step that misses the controller's bounds makes GSL fail: Evolve must then throw
    o["h"]=r.chance(0.3)?2.2e-16:(r.chance(0.5)?1e-3:1e-1);
    double L=lambda_hint; unsigned ns;
    if(k==0) ns=(unsigned)std::min(20000.0,std::ceil(dt*L/0.004)+10); else if(k==4) ns=(unsigned)(std::ceil(dt*L/0.15)+10); else if(k==6) ns=(unsigned)r.range(1,12); else ns=(unsigned)(std::ceil(dt*L/0.04)+10);
    o["nsteps"]=(int)ns;
    o["tableau"]=(int)r.below(6); o["bufmode"]=(int)r.below(4); o["dydt_in"]=r.chance(0.5);
    o["reject"]=adaptive&&r.chance(0.35)?r.range(1,4):0; o["fail"]=adaptive&&r.chance(0.25)?r.range(1,3):0;
    o["all"]=r.chance(0.5);
    return o;
  }
  // a tolerance tightened on its own between two Evolve calls: the first segment runs loose in one of the two tolerances (its closed-form
  // comparison is skipped), the second must obey the new value
  static void gen_stale_tolerance(Rng& r,Json& ops,double L){
    static const char* names[]={"rk4","rkf45","rkck","rk8pd","msadams"};
    bool abs_first=r.chance(0.5);
    Json st=Json::object(); st["op"]="stepper"; st["name"]=names[r.below(5)]; st["adaptive"]=true; st["abs"]=abs_first?1e-2:1e-11; st["rel"]=abs_first?1e-11:1e-2;
    st["h"]=r.chance(0.5)?1e-3:1e-1; st["nsteps"]=100; st["tableau"]=0; st["bufmode"]=0; st["dydt_in"]=true; st["reject"]=0; st["fail"]=0; st["all"]=r.chance(0.5);
    ops.push(st);
    { Json o=Json::object(); o["op"]="evolve"; o["dt"]=r.uniform(0.1,0.6); ops.push(o); }
    { Json o=Json::object(); o["op"]="tweak"; o["which"]=abs_first?"abs":"rel"; o["value"]=1e-10; ops.push(o); }
    { Json o=Json::object(); o["op"]="evolve"; o["dt"]=r.uniform(0.2,0.8); ops.push(o); }
    (void)L;
  }
  static Json gen_tweak(Rng& r){
    Json o=Json::object(); o["op"]="tweak"; static const char* w[]={"abs","rel","h","nsteps","adaptive"}; int k=(int)r.weighted({25,25,20,20,10}); o["which"]=w[k];
    o["value"]=(k<2)?(r.chance(0.5)?1e-10:1e-8):(r.chance(0.5)?1e-4:1e-2);
    return o;
  }
  static Json gen_expect(Rng& r,bool allow_outside){
    Json o=Json::object(); o["op"]="expect";
    static const char* kinds[]={"node","node_avg","x","x_buf","x_avg","x_buf_avg","state","node_vs_x_avg"};
    o["kind"]=kinds[r.weighted({20,8,22,14,10,8,18,8})];
    o["irho"]=(int)r.below(3); o["ix"]=(int)r.below(9); o["vs"]=(long long)r.below(1000000);
    double x=r.uniform(0,1);
    if(allow_outside && r.chance(0.25)) x=r.chance(0.5)?-r.uniform(0.01,1.5):1+r.uniform(0.01,1.5);
    else if(r.chance(0.1)) x=r.chance(0.5)?0.0:1.0;
    o["x"]=x; o["at_node"]=r.chance(0.15);
    o["pre_avg"]=r.chance(0.3)?(int)(1+r.below(7)):0;
    if(allow_outside && r.chance(0.12)){ static const int ulps[]={1,1,2,16,1000}; o["edge"]=ulps[r.below(5)]*(r.chance(0.5)?1:-1); }
    return o;
  }

  Json generate(uint64_t vseed,uint64_t index,const std::string& prop_,const std::string&){
    std::string prop=prop_.empty()?"C04":prop_;
    uint64_t rs=run_seed(vseed,index);
    Rng r(stream_seed(rs,STREAM_PLAN));
    Json p=Json::object();
    p["engine"]="solversim"; p["property"]=prop; p["verif_seed"]=(long long)vseed; p["run"]=(long long)index;
    Json al=Json::object(); al["reuse"]=(int)r.weighted({20,50,15,15}); al["residue"]=(int)r.weighted({25,25,50}); al["fill"]=0; al["c_reuse"]=(int)r.weighted({25,50,10,15}); al["seed"]=(long long)(stream_seed(rs,STREAM_ALLOC)>>2);
    p["alloc"]=al;
    p["cfg"]=gen_cfg(r,prop=="C05");
    Json sw=Json::array(); int mask=(int)r.below(32); if(prop=="C04"&&r.chance(0.7)) mask|=(1<<r.below(3)); if(prop=="C05"&&r.chance(0.5)) mask=0;
    for(int i=0;i<5;i++) sw.push((mask>>i)&1); p["switches"]=sw; p["switch_order"]=(int)r.below(6); p["switches_first"]=r.chance(0.3);
    Json ops=Json::array();
    double L=9.0;
    auto evolve=[&](double dt){ Json o=Json::object(); o["op"]="evolve"; o["dt"]=dt; ops.push(o); };
    auto dtgen=[&]{ return r.chance(0.1)?0.0:(r.chance(0.03)?1e-17:(r.chance(0.7)?r.uniform(0.05,0.8):r.uniform(0.8,1.6))); };   // 1e-17: a segment so short that t+dt may equal t
    if(prop=="C04"){
      int nev=r.range(1,3);
      for(int i=0;i<nev;i++){ double dt=dtgen(); if(i==0||r.chance(0.4)) ops.push(gen_stepper(r,dt,L)); else if(r.chance(0.3)) ops.push(gen_tweak(r)); evolve(dt);
        if(r.chance(0.12)){ Json pt=Json::object(); pt["which"]=(int)r.below(5); pt["at"]=r.range(1,8); ops[ops.size()-1]["pre_toggle"]=pt; }
        if(r.chance(0.25)) ops.push(gen_expect(r,false)); }
      if(r.chance(0.12)) gen_stale_tolerance(r,ops,L);
    }else if(prop=="C05"){
      int n=r.range(2,10);
      for(int i=0;i<n;i++){
        int k=(int)r.weighted({22,55,6,7,10});
        if(k==0){ double dt=dtgen()*(r.chance(0.2)?50:1); if(mask) dt=std::min(dt,1.0); ops.push(gen_stepper(r,dt,L)); evolve(dt); }
        else if(k==1) ops.push(gen_expect(r,true));
        else if(k==2){ Json o=Json::object(); o["op"]="reini"; o["cfg"]=gen_cfg(r,true); o["same"]=r.chance(0.4); ops.push(o); }
        else if(k==3){ Json o=Json::object(); o["op"]="second_solver"; o["same_dim"]=r.chance(0.35); o["mirror"]=r.chance(0.6); o["d"]=(int)r.below(5); o["avg"]=r.chance(0.3); o["vs"]=(long long)r.below(100000); ops.push(o); }
        else{ Json o=Json::object(); o["op"]=r.chance(0.5)?"move_ctor":"move_assign"; o["self"]=r.chance(0.12); o["fresh"]=r.chance(0.5); o["evolve_target"]=r.chance(0.3); o["reini_old"]=r.chance(0.3); o["reini_same"]=r.chance(0.5); o["n"]=(int)r.below(3); o["d"]=(int)r.below(5); o["s"]=(int)r.below(2); ops.push(o); }
      }
    }else{ // C10 and C15: sequences
      int n=r.range(2,8);
      for(int i=0;i<n;i++){
        int k=(int)r.weighted({40,14,12,8,8,6,6,6});
        if(prop=="C15"&&r.chance(0.15)) k=8;
        if(prop=="C15"&&r.chance(0.12)) k=9;
        if(r.chance(0.08)) k=10;
        if(r.chance(0.06)) k=11;
        if(r.chance(0.05)){ gen_stale_tolerance(r,ops,L); continue; }
        if(r.chance(0.06)){ ops.push(gen_tweak(r)); evolve(dtgen()); continue; }
        if(k==0){ double dt=dtgen(); if(i==0||r.chance(0.35)) ops.push(gen_stepper(r,dt,L)); evolve(dt); }
        else if(k==1){ Json o=Json::object(); o["op"]="switch"; o["which"]=(int)r.below(5); o["on"]=r.chance(0.5); ops.push(o); }
        else if(k==2){ ops.push(gen_stepper(r,1.0,L)); }
        else if(k==3||k==4){ Json o=Json::object(); o["op"]=k==3?"move_ctor":"move_assign"; o["self"]=r.chance(0.12); o["fresh"]=r.chance(0.5); o["evolve_target"]=r.chance(0.35); o["reini_old"]=r.chance(0.4); o["reini_same"]=r.chance(0.5); o["n"]=(int)r.below(3); o["d"]=(int)r.below(5); o["s"]=(int)r.below(2); ops.push(o); }
        else if(k==5){ Json o=Json::object(); o["op"]="reini"; o["cfg"]=gen_cfg(r,false); o["same"]=r.chance(0.4); ops.push(o); }
        else if(k==6) ops.push(gen_expect(r,prop=="C15"));
        else if(k==7){ Json o=Json::object(); o["op"]="second_solver"; o["same_dim"]=r.chance(0.35); o["mirror"]=r.chance(0.6); o["d"]=(int)r.below(5); o["avg"]=r.chance(0.3); o["vs"]=(long long)r.below(100000); ops.push(o); }
        else if(k==10){ Json o=Json::object(); o["op"]="limits"; o["hmin"]=(int)r.below(4); o["hmax"]=(int)r.below(3); ops.push(o); if(r.chance(0.6)){ evolve(r.chance(0.5)?r.uniform(1e-5,5e-3):dtgen()); } }
        else if(k==11){ Json o=Json::object(); o["op"]="any_numerics"; o["on"]=r.chance(0.4); ops.push(o); evolve(dtgen()); }
        else if(k==9){ Json o=Json::object(); o["op"]="evolve_fail"; o["at"]=(int)r.below(4); o["adaptive"]=r.chance(0.6); o["vs"]=(long long)r.below(100000); ops.push(o); }
        else{ Json o=Json::object(); o["op"]="bad_call"; static const char* bk[]={"xrange_size","xrange_unsorted","xrange_scale","xrange_log0","get_i","ini_dim7","ini_dim1","expect_dim","expect_dim","expect_dim"}; o["kind"]=bk[r.below(10)]; o["above"]=r.chance(0.5); o["grow"]=(int)r.below(4); o["variant"]=(int)r.below(6); ops.push(o); }
      }
    }
    // a C04 plan at a clock of 1e13..3e15 (one ulp of the clock is 2e-3..0.5, comparable to or larger than a step): time-independent terms, real
    // steppers in fixed mode with steps small enough for a tight closed-form tolerance. Drawn from its own stream so that the other plans stay as they were.
    if(prop=="C04"){
      Rng rb(stream_seed(rs,STREAM_PLAN)^0xB16C10C5ULL);
      if(rb.chance(0.07)){
        p["cfg"]["t0"]=(rb.chance(0.5)?1.0:-1.0)*std::pow(10.0,rb.uniform(13.0,15.5)); p["cfg"]["const_terms"]=true;
        ops=Json::array();
        static const char* names[]={"rk4","rkf45","rkck","rk8pd"}; int k=(int)rb.below(4);
        int nev=rb.range(1,2);
        for(int i=0;i<nev;i++){
          double dt=rb.uniform(0.05,0.8);
          {
            Json st=Json::object(); st["op"]="stepper"; st["name"]=names[k]; st["adaptive"]=false; st["abs"]=0.1; st["rel"]=0.1; st["h"]=1e-3;
            st["nsteps"]=(int)(std::ceil(dt*L/(k==3?0.05:0.01))+10); st["tableau"]=0; st["bufmode"]=0; st["dydt_in"]=true; st["reject"]=0; st["fail"]=0; st["all"]=rb.chance(0.5);
            ops.push(st);
          }
          evolve(dt);
        }
      }
    }
    p["ops"]=ops;
    Json sh=Json::array(); sh.push("ops"); p["shrink"]=sh;
    return p;
  }

  Outcome execute(const Json& plan,bool verbose,Counters& ctr,std::string* text){
    Outcome out; Trace tr; tr.reset(verbose);
    Run* run=new Run();
    run->c.out=&out; run->c.tr=&tr; run->c.ctr=&ctr; run->plan=&plan; run->trace_ops=verbose||plan["trace_ops"].as_bool(false);
    run->prop=plan["property"].as_str("C04");
    run->c.prop_default=run->prop;
    run->c.log.reserve(8192);
    run->c.run=run; run->c.pre_hook=&Run::pre_hook_tramp;
    g_ctx=&run->c;
    AllocCfg cfg; const Json& a=plan["alloc"];
    cfg.reuse=(int)a["reuse"].as_int(REUSE_LIFO); cfg.residue=(int)a["residue"].as_int(RESIDUE_RANDOM); cfg.fill=(int)a["fill"].as_int(0);
    cfg.c_reuse=(int)a["c_reuse"].as_int(REUSE_LIFO); cfg.seed=(uint64_t)a["seed"].as_int(1);
    cfg.passthrough=0;
    alloc_run_begin(cfg);
    std::thread th([&]{
      Run& R=*run;
      const Json& sw=plan["switches"];
      R.c.sw.coh=sw[(size_t)0].as_bool(); R.c.sw.noncoh=sw.size()>1&&sw[(size_t)1].as_bool(); R.c.sw.other=sw.size()>2&&sw[(size_t)2].as_bool(); R.c.sw.gs=sw.size()>3&&sw[(size_t)3].as_bool(); R.c.sw.os=sw.size()>4&&sw[(size_t)4].as_bool();
      Json defstep=Json::object(); R.read_stepper(defstep);
      R.configure(plan["cfg"],true);
      R.c.opi=-1; R.begin("construct","C15");
      // the term switches may be set before the object has any sizes (default construction, setters, then ini) or afterwards
      bool sw_first=plan["switches_first"].as_bool(false);
      int rc=lib_call([&]{ R.live=new SimSolver(&R.c); if(sw_first) R.apply_switches(R.live,(int)plan["switch_order"].as_int(0)); R.live->ini(R.nx,R.nsun,R.nrhos,R.nsc,R.t_ini); });
      R.c.live=R.live;
      if(rc!=CALL_OK){ R.c.violation("C15","exc:unexpected","ini","constructing the solver threw \""+g_what+"\""); }
      else if(R.setup_state(plan["cfg"])){
        if(!sw_first) lib_call([&]{ R.apply_switches(R.live,(int)plan["switch_order"].as_int(0)); }); else ctr.add("probe_switches_set_before_ini");
        R.shp((long)R.nx*1000+R.nsun*100+R.nrhos*10+R.nsc);
        const Json& ops=plan["ops"];
        for(size_t i=0;i<ops.size()&&i<64&&out.ok;i++){ R.c.opi=(int)i; R.run_op(ops[i]); }
      }
      R.c.opi++; R.begin("quiescence","C15");
      lib_call([&]{ delete R.live; R.live=0; squids::SU_vector::clear_mem_cache(); });
    });
    th.join();
    // ledger: everything the library allocated (C++ and, through GSL, C) has been released once the thread has ended
    if(out.ok){
      AllocError errs[4]; int ne=alloc_errors(errs,4);
      static const char* names[]={"none","double-free","foreign-free","user-buffer-freed","guard-overwritten","write-after-free","mismatched-new-delete"};
      if(ne>0){ out.fail(std::string("ledger:")+names[errs[0].kind],"solver",std::string(names[errs[0].kind])+" of block #"+std::to_string(errs[0].block_id)+" ("+std::to_string(errs[0].size)+" bytes)"); out.prop="C15"; }
    }
    if(out.ok){
      BlockInfo bi[8]; int n=alloc_live_lib_blocks(bi,8);
      if(n>0){ char b[200]; snprintf(b,sizeof b,"%d block(s) still allocated after the solver was destroyed, the cache emptied and the thread ended; first: #%ld, %zu bytes (%s), allocated in op#%d",n,bi[0].id,bi[0].size,bi[0].live==2?"C allocator":"operator new",bi[0].tag);
        out.fail("ledger:leak",bi[0].live==2?"c-allocator":"operator-new",b); out.prop="C15"; }
    }
    if(out.ok && run->c.have_foreign){ out.fail(run->c.f_cls,run->c.f_sig,run->c.f_detail); out.prop=run->c.f_prop; }
    AllocStats st=alloc_stats();
    ctr.add("alloc_cxx",st.cxx_allocs); ctr.add("alloc_c",st.c_allocs); ctr.add("alloc_reused_address",st.reused); ctr.add("alloc_c_reused_address",st.c_reused);
    alloc_run_end();
    out.event_hash=tr.hash; out.shape=run->shape; out.nontrivial=run->nontrivial; out.sim_steps=run->applies_total; out.sim_time=run->sim_time;
    if(!out.ok && out.prop.empty()) out.prop="C15";
    if(text) *text=tr.text;
    g_ctx=0;
    delete run;
    return out;
  }
};

}

int main(int argc,char** argv){
  SolverEngine e;
  return engine_main(argc,argv,e);
}
