// expsim: histories of matrix_exponential / UTransform(v,scale) calls on a simulated thread, with the estimator's random
// bits (S7) and both allocators (S1,S2) owned by the simulator; oracle = exp(A) in __float128. Serves C07.
#include "../../sim/engine_main.h"
#include "../../sim/simalloc.h"
#include "../../sim/dense.h"
#include <SQuIDS/SUNalg.h>
#include <SQuIDS/detail/MatrixExp.h>
#include <gsl/gsl_rng.h>
#include <gsl/gsl_eigen.h>
#include <gsl/gsl_errno.h>
#include <thread>
#include <cmath>
#include <cstring>

using namespace verif;

// ---- S7: the estimator's random bits
namespace{
struct BitStream{ uint64_t seed; int mode; int runmax; Rng rng; long draws; long forced; int run_left; int run_bit; bool active;
  BitStream():seed(1),mode(0),runmax(0),rng(1),draws(0),forced(0),run_left(0),run_bit(0),active(false){}
  void start(uint64_t s,int m,int rm){ seed=s; mode=m; runmax=rm; rng.reseed(s); draws=0; forced=0; run_left=0; run_bit=0; active=true; }
  int next(){
    draws++;
    if(mode==1){
      // runs of identical bits of bounded length (forces the resample loops); random afterwards
      if(run_left>0){ run_left--; forced++; return run_bit; }
      if(draws<4000 && rng.chance(0.3)){ run_left=(int)rng.below((uint64_t)runmax+1); run_bit=(int)rng.below(2); return run_bit; }
    }
    return (int)rng.below(2);
  }
};
__thread BitStream* tl_bits=0;
}
extern "C"{
unsigned long __real_gsl_rng_uniform_int(const gsl_rng* r,unsigned long n);
unsigned long __wrap_gsl_rng_uniform_int(const gsl_rng* r,unsigned long n){
  if(tl_bits && tl_bits->active && n==2) return (unsigned long)tl_bits->next();
  return __real_gsl_rng_uniform_int(r,n);
}
}

namespace{

typedef __float128 q128;
struct QC{ q128 re,im; QC(q128 r=0,q128 i=0):re(r),im(i){} };
inline QC operator*(QC a,QC b){ return QC(a.re*b.re-a.im*b.im,a.re*b.im+a.im*b.re); }
inline QC operator+(QC a,QC b){ return QC(a.re+b.re,a.im+b.im); }
struct QM{ unsigned n; QC m[6][6]; explicit QM(unsigned n_=0):n(n_){} };
QM qmul(const QM& a,const QM& b){ QM r(a.n); for(unsigned i=0;i<a.n;i++) for(unsigned j=0;j<a.n;j++){ QC s; for(unsigned k=0;k<a.n;k++) s=s+a.m[i][k]*b.m[k][j]; r.m[i][j]=s; } return r; }
// exp(A) by scaling and squaring with a Taylor series, in quadruple precision
QM qexp(const Mat& A){
  unsigned n=A.d; double nrm=0; for(unsigned i=0;i<n;i++){ double s=0; for(unsigned j=0;j<n;j++) s+=std::abs(A.m[i][j]); nrm=std::max(nrm,s); }
  int sq=0; while(nrm>0.25){ nrm/=2; sq++; }
  q128 sc=1; for(int i=0;i<sq;i++) sc/=2;
  QM B(n); for(unsigned i=0;i<n;i++) for(unsigned j=0;j<n;j++) B.m[i][j]=QC((q128)A.m[i][j].real()*sc,(q128)A.m[i][j].imag()*sc);
  QM term(n),sum(n); for(unsigned i=0;i<n;i++){ term.m[i][i]=QC(1,0); sum.m[i][i]=QC(1,0); }
  for(int k=1;k<=40;k++){ term=qmul(term,B); q128 inv=(q128)1/(q128)k; for(unsigned i=0;i<n;i++) for(unsigned j=0;j<n;j++){ term.m[i][j].re*=inv; term.m[i][j].im*=inv; sum.m[i][j]=sum.m[i][j]+term.m[i][j]; } }
  for(int i=0;i<sq;i++) sum=qmul(sum,sum);
  return sum;
}

enum { CALL_OK=0, CALL_EXCEPTION=1 };
std::string g_what;
template<class F> int lib_call(F f){
  int r=CALL_OK; alloc_scope(1);
  try{ f(); }catch(std::exception& e){ alloc_scope(0); r=CALL_EXCEPTION; g_what=e.what(); alloc_scope(1); }catch(...){ alloc_scope(0); r=CALL_EXCEPTION; g_what="unknown"; alloc_scope(1); }
  alloc_scope(0); return r;
}

static const double THETA[5]={1.495585217958292e-2,2.539398330063230e-1,9.504178996162932e-1,2.097847961257068,4.25};

// matrix classes of the property
Mat gen_matrix(unsigned n,int cls,double norm1,uint64_t seed){
  Rng r(seed); Mat A(n);
  auto rnd=[&]{ return cplx(r.uniform(-1,1),r.uniform(-1,1)); };
  switch(cls){
    case 0:{ // anti-Hermitian: i*H
      for(unsigned i=0;i<n;i++){ A.m[i][i]=cplx(0,r.uniform(-1,1)); for(unsigned j=i+1;j<n;j++){ cplx z=rnd(); A.m[i][j]=z; A.m[j][i]=-std::conj(z); } } break; }
    case 1:{ // Hermitian, negative semi-definite: -(B B^dagger)
      Mat B(n); for(unsigned i=0;i<n;i++) for(unsigned j=0;j<n;j++) B.m[i][j]=rnd();
      A=(B*B.dagger()).scaled(-1.0); break; }
    case 2:{ // normal: U diag(z) U^dagger, Re z <= 0.5*|z|max kept bounded below
      Mat U=Mat::identity(n); for(unsigned q=0;q<n+1;q++){ unsigned j=1+(unsigned)r.below(n-1),i=(unsigned)r.below(j); U=U*plane_rotation(n,i,j,r.uniform(-1.5,1.5),r.uniform(-1,1)); }
      Mat D(n); for(unsigned i=0;i<n;i++) D.m[i][i]=cplx(-r.uniform(0,1),r.uniform(-1,1));
      A=U*D*U.dagger(); break; }
    case 3:{ for(unsigned i=0;i<n;i++) for(unsigned j=0;j<n;j++) A.m[i][j]=rnd(); break; }     // general dense
    case 4:{ for(unsigned i=0;i<n;i++) A.m[i][i]=rnd(); break; }                                   // diagonal
    case 5:{ for(unsigned i=0;i<n;i++) for(unsigned j=i+1;j<n;j++) A.m[i][j]=rnd(); break; }       // nilpotent
    case 6:{ for(unsigned i=0;i<n;i++){ A.m[i][i]=rnd(); for(unsigned j=0;j<n;j++) if(i!=j) A.m[i][j]=rnd()*1e-9; } break; } // nearly diagonal
    case 8:{ // i times a real symmetric matrix with zero row sums (graph Laplacian): A*(1,...,1) = 0, anti-Hermitian
      for(unsigned i=0;i<n;i++) for(unsigned j=i+1;j<n;j++){ double w=r.chance(0.3)?0.0:r.uniform(0.1,1); A.m[i][j]=cplx(0,-w); A.m[j][i]=cplx(0,-w); }
      for(unsigned i=0;i<n;i++){ cplx sm=0; for(unsigned j=0;j<n;j++) if(j!=i) sm+=A.m[i][j]; A.m[i][i]=-sm; }
      break; }
    case 9:{ // general complex matrix with zero row sums (non-normal, annihilates the all-ones vector)
      for(unsigned i=0;i<n;i++){ cplx sm=0; for(unsigned j=0;j<n;j++) if(j!=i){ A.m[i][j]=rnd(); sm+=A.m[i][j]; } A.m[i][i]=-sm; }
      break; }
    case 10:{ // square-zero, rank one, |A| not nilpotent: every row is w^T with entries of equal modulus that cancel in pairs, so A*A = 0 exactly and exp(A) = I + A
      static const cplx zs[4]={cplx(1,0),cplx(-1,0),cplx(0,1),cplx(0,-1)};
      std::vector<cplx> w(n,cplx(0,0)); for(unsigned j=0;j+1<n;j+=2){ cplx z=zs[r.below(4)]; w[j]=z; w[j+1]=-z; }
      for(unsigned j=n;j>1;j--){ unsigned k=(unsigned)r.below(j); std::swap(w[j-1],w[k]); }
      for(unsigned i=0;i<n;i++) for(unsigned j=0;j<n;j++) A.m[i][j]=w[j];
      double n1=(double)n; if(norm1>0){ int e=(int)std::lround(std::log2(norm1/n1)); A=A.scaled(std::ldexp(1.0,e)); } else if(norm1==0) A=A.scaled(0.0);   // power-of-two scale: the cancellation stays exact
      return A; }
    default:{ // Hermitian indefinite with small positive part
      for(unsigned i=0;i<n;i++){ A.m[i][i]=cplx(r.uniform(-1,0.3),0); for(unsigned j=i+1;j<n;j++){ cplx z=rnd(); A.m[i][j]=z; A.m[j][i]=std::conj(z); } } break; }
  }
  double n1=0; for(unsigned j=0;j<n;j++){ double s=0; for(unsigned i=0;i<n;i++) s+=std::abs(A.m[i][j]); n1=std::max(n1,s); }
  if(n1>0 && norm1>=0) A=A.scaled(norm1/n1);
  return A;
}
double max_herm_eig(const Mat& A){
  unsigned n=A.d; gsl_matrix_complex* H=gsl_matrix_complex_alloc(n,n); gsl_vector* ev=gsl_vector_alloc(n); gsl_eigen_herm_workspace* w=gsl_eigen_herm_alloc(n);
  for(unsigned i=0;i<n;i++) for(unsigned j=0;j<n;j++){ cplx z=0.5*(A.m[i][j]+std::conj(A.m[j][i])); gsl_matrix_complex_set(H,i,j,gsl_complex_rect(z.real(),z.imag())); }
  gsl_eigen_herm(H,ev,w); double m=-1e300; for(unsigned i=0;i<n;i++) m=std::max(m,gsl_vector_get(ev,i));
  gsl_eigen_herm_free(w); gsl_vector_free(ev); gsl_matrix_complex_free(H); return m;
}
double fro(const Mat& A){ double s=0; for(unsigned i=0;i<A.d;i++) for(unsigned j=0;j<A.d;j++) s+=std::norm(A.m[i][j]); return std::sqrt(s); }

struct Call{ int kind; unsigned n; Mat A; uint64_t bitseed; int bitmode,runmax; bool view; // kind 0: matrix_exponential (view: input and output are blocks of larger matrices)
             std::vector<double> vcomp,acomp; double s;                              // kind 1: a.UTransform(v, i*s)
             std::vector<double> vdelta; };                                          // kind 2: the same, twice: v is updated in place (v += delta) between the calls
struct CallResult{ int rc; std::string what; Mat X; std::vector<double> out; long draws,forced; };

// perform one call on the calling thread with its own bit stream
void perform(const Call& c,CallResult& r){
  BitStream bs; bs.start(c.bitseed,c.bitmode,c.runmax); tl_bits=&bs;
  if(c.kind==0){
    // a gsl matrix need not own contiguous rows: in part of the calls input and output are blocks inside larger matrices (row stride > n)
    unsigned pr=c.view?c.n+2:c.n,pc=c.view?c.n+3:c.n,r0=c.view?1:0,c0=c.view?2:0;
    gsl_matrix_complex* PA=gsl_matrix_complex_alloc(pr,pc); gsl_matrix_complex* PE=gsl_matrix_complex_alloc(pr,pc);
    for(unsigned i=0;i<pr;i++) for(unsigned j=0;j<pc;j++){ gsl_matrix_complex_set(PA,i,j,gsl_complex_rect(7.0+i,-3.0-j)); gsl_matrix_complex_set(PE,i,j,gsl_complex_rect(NAN,NAN)); }
    gsl_matrix_complex_view VA=gsl_matrix_complex_submatrix(PA,r0,c0,c.n,c.n),VE=gsl_matrix_complex_submatrix(PE,r0,c0,c.n,c.n);
    gsl_matrix_complex* A=&VA.matrix; gsl_matrix_complex* E=&VE.matrix;
    for(unsigned i=0;i<c.n;i++) for(unsigned j=0;j<c.n;j++) gsl_matrix_complex_set(A,i,j,gsl_complex_rect(c.A.m[i][j].real(),c.A.m[i][j].imag()));
    r.rc=lib_call([&]{ squids::math_detail::matrix_exponential(E,A); }); r.what=g_what;
    r.X=Mat(c.n); for(unsigned i=0;i<c.n;i++) for(unsigned j=0;j<c.n;j++){ gsl_complex z=gsl_matrix_complex_get(E,i,j); r.X.m[i][j]=cplx(GSL_REAL(z),GSL_IMAG(z)); }
    if(c.view && r.rc==CALL_OK){
      // nothing outside the blocks may have been touched
      for(unsigned i=0;i<pr;i++) for(unsigned j=0;j<pc;j++){ bool inside=(i>=r0&&i<r0+c.n&&j>=c0&&j<c0+c.n); if(inside) continue;
        gsl_complex a=gsl_matrix_complex_get(PA,i,j),e=gsl_matrix_complex_get(PE,i,j);
        if(GSL_REAL(a)!=7.0+i||GSL_IMAG(a)!=-3.0-j||!std::isnan(GSL_REAL(e))){ r.rc=CALL_EXCEPTION; r.what="an element outside the input or output block was modified"; } }
      for(unsigned i=0;i<c.n;i++) for(unsigned j=0;j<c.n;j++){ gsl_complex a=gsl_matrix_complex_get(A,i,j); if(GSL_REAL(a)!=c.A.m[i][j].real()||GSL_IMAG(a)!=c.A.m[i][j].imag()){ r.rc=CALL_EXCEPTION; r.what="the input matrix was modified"; } }
    }
    gsl_matrix_complex_free(PA); gsl_matrix_complex_free(PE);
  }else{
    r.rc=lib_call([&]{
      squids::SU_vector a(c.acomp),v(c.vcomp);
      if(c.kind==2){
        // first call with the generator before the update: same object, same scale, other contents
        squids::SU_vector v0(c.n); for(unsigned k=0;k<c.n*c.n;k++) v0[k]=c.vcomp[k]-c.vdelta[k];
        v=v0;
        squids::SU_vector first=a.UTransform(v,gsl_complex_rect(0.0,c.s));
        squids::SU_vector d(c.vdelta); v+=d;
        for(unsigned k=0;k<c.n*c.n;k++) v[k]=c.vcomp[k];      // exactly the values of the reference
      }
      squids::SU_vector res=a.UTransform(v,gsl_complex_rect(0.0,c.s));
      r.out=res.GetComponents();
    });
    r.what=g_what;
  }
  r.draws=bs.draws; r.forced=bs.forced; tl_bits=0;
}

struct ExpEngine: Engine{
  const char* name() const{ return "expsim"; }
  void init(){ gsl_set_error_handler_off(); }

  Json generate(uint64_t vseed,uint64_t index,const std::string& prop,const std::string&){
    uint64_t rs=run_seed(vseed,index); Rng r(stream_seed(rs,STREAM_PLAN));
    Json p=Json::object(); p["engine"]="expsim"; p["property"]=prop.empty()?"C07":prop; p["verif_seed"]=(long long)vseed; p["run"]=(long long)index;
    Json al=Json::object(); al["reuse"]=(int)r.weighted({20,50,15,15}); al["c_reuse"]=(int)r.weighted({20,50,15,15}); al["residue"]=2; al["fill"]=(int)r.weighted({70,15,15}); al["seed"]=(long long)(stream_seed(rs,STREAM_ALLOC)>>2);
    p["alloc"]=al;
    int nops=r.chance(0.6)?r.range(1,4):r.range(5,12);
    Json ops=Json::array();
    for(int i=0;i<nops;i++){
      Json o=Json::object();
      bool ut=r.chance(0.3);
      o["op"]=ut?(r.chance(0.35)?"utransform2":"utransform"):"exp";
      int n=(int)r.weighted({0,0,22,26,20,16,16}); o["n"]=n;
      int cls=(int)r.weighted({22,11,11,16,6,8,5,11,6,4}); o["cls"]=cls;
      // 1-norm: on both sides of every threshold, log-uniform otherwise
      double norm;
      if(r.chance(0.55)){ static const double f[]={0.5,0.9,0.99,1.01,1.1,2.0}; norm=THETA[r.below(5)]*f[r.below(6)]*(r.chance(0.3)?1.0:r.uniform(0.8,1.25)); }
      else norm=std::pow(10.0,r.uniform(-6,3));
      double cap=(cls==0||cls==1||cls==2||cls==8)?1e3:50.0; if(cls==7) cap=20.0; if(norm>cap) norm=cap*r.uniform(0.3,1.0);
      if(r.chance(0.02)) norm=0.0;
      o["norm"]=norm; o["vs"]=(long long)r.below(100000000);
      o["bitseed"]=(long long)(r.next()>>2); o["bitmode"]=r.chance(0.3)?1:0; o["runmax"]=r.range(1,64); o["repeat"]=r.chance(0.3); o["view"]=r.chance(0.25);
      o["s"]=r.chance(0.5)?r.uniform(-3,3):std::pow(10.0,r.uniform(-3,2.5))*(r.chance(0.5)?1:-1);
      // square-zero matrices with dense absolute value (class 10), 1-norm 30..4e3, drawn from a stream of their own so that the other plans stay as they were
      { Rng rb(stream_seed(rs,STREAM_PLAN)^(0x5A0ULL+(uint64_t)i*7919ULL)); if(rb.chance(0.05)){ o["op"]="exp"; o["cls"]=10; o["norm"]=std::pow(10.0,rb.uniform(1.5,3.6)); } }
      ops.push(o);
    }
    p["ops"]=ops; Json sh=Json::array(); sh.push("ops"); p["shrink"]=sh;
    return p;
  }

  Outcome execute(const Json& plan,bool verbose,Counters& ctr,std::string* text){
    Outcome out; Trace tr; tr.reset(verbose);
    bool trace_ops=verbose||plan["trace_ops"].as_bool(false);
    AllocCfg cfg; const Json& a=plan["alloc"];
    cfg.reuse=(int)a["reuse"].as_int(1); cfg.c_reuse=(int)a["c_reuse"].as_int(1); cfg.residue=(int)a["residue"].as_int(2); cfg.fill=(int)a["fill"].as_int(0); cfg.seed=(uint64_t)a["seed"].as_int(1);
    cfg.passthrough=0;
    alloc_run_begin(cfg);
    uint64_t shape=1469598103934665603ULL; bool nontrivial=false; long ncalls=0;
    const Json& ops=plan["ops"];
    std::thread hist([&]{
      int prev_n=0;
      for(size_t i=0;i<ops.size()&&i<32&&out.ok;i++){
        const Json& o=ops[i];
        Call c; c.kind=o["op"].as_str()=="utransform"?1:(o["op"].as_str()=="utransform2"?2:0); c.n=(unsigned)std::max(2LL,std::min(6LL,o["n"].as_int(3)));
        int cls=(int)(o["cls"].as_int(0)%11); double norm=o["norm"].as_num(1.0); if(!(norm>=0)) norm=1.0; if(norm>(cls==10?4e3:1e3)) norm=(cls==10?4e3:1e3);
        c.bitseed=(uint64_t)o["bitseed"].as_int(1); c.bitmode=(int)(o["bitmode"].as_int(0)&1); c.runmax=(int)std::max(1LL,std::min(64LL,o["runmax"].as_int(8)));
        c.s=o["s"].as_num(1.0); if(!(std::fabs(c.s)<1e3)) c.s=1.0;
        c.view=o["view"].as_bool(false); if(c.view&&c.kind==0) ctr.add("cover_block_view_input");
        uint64_t vs=(uint64_t)o["vs"].as_int(1);
        std::string kind=c.kind==0?"exp":(c.kind==1?"utransform":"utransform2");
        if(trace_ops){ printf("O %zu %s C07\n",i,kind.c_str()); fflush(stdout); }
        alloc_tag((int)i);
        Mat Aexp(c.n),Vm(c.n),Am(c.n);
        if(c.kind==0){ c.A=gen_matrix(c.n,cls,norm,vs); Aexp=c.A; }
        else{
          // Hermitian V and A from components; the exponentiated matrix is i*s*V
          Rng r(vs); c.vcomp.resize(c.n*c.n); c.acomp.resize(c.n*c.n);
          for(size_t k=0;k<c.vcomp.size();k++){ c.vcomp[k]=r.uniform(-1,1); c.acomp[k]=r.uniform(-1,1); }
          c.vdelta.resize(c.n*c.n); for(size_t k=0;k<c.vdelta.size();k++) c.vdelta[k]=r.uniform(-0.5,0.5);
          if(cls==4){ for(unsigned k=0;k<c.n*c.n;k++) if(k%(c.n+1)!=0 || k==0) {} }   // (diagonal V is reached through the components below)
          if(cls==4) for(unsigned idx=1;idx<c.n*c.n;idx++){ unsigned ii=idx/c.n,jj=idx%c.n; if(ii!=jj) c.vcomp[idx]=0; }
          Vm=from_components(c.n,&c.vcomp[0]); Am=from_components(c.n,&c.acomp[0]);
          Aexp=Vm.scaled(cplx(0,c.s));
        }
        CallResult res; perform(c,res);
        ncalls++;
        double n1=0; for(unsigned j=0;j<c.n;j++){ double s=0; for(unsigned ii=0;ii<c.n;ii++) s+=std::abs(Aexp.m[ii][j]); n1=std::max(n1,s); }
        int band=0; while(band<5&&n1>=THETA[band]) band++;
        bool diag=true; for(unsigned ii=0;ii<c.n;ii++) for(unsigned jj=0;jj<c.n;jj++) if(ii!=jj&&Aexp.m[ii][jj]!=cplx(0,0)) diag=false;
        char key[64]; snprintf(key,sizeof key,"probe_norm_band_%d",band); ctr.add(key); if(c.n==2) ctr.add("probe_size_2"); if(diag) ctr.add("probe_diagonal_input");
        if(c.bitmode==1) ctr.add("fault_identical_bit_runs_configured");
        ctr.add("fault_identical_bits_fired",res.forced); ctr.add("estimator_bits_drawn",res.draws);
        { char ck[48]; snprintf(ck,sizeof ck,"cover_class_%d",cls); ctr.add(ck); snprintf(ck,sizeof ck,"cover_n_%u",c.n); ctr.add(ck); ctr.add("cover_kind_"+kind); }
        long tag[5]={(long)c.kind,(long)c.n,cls,band,prev_n}; shape=fnv1a(tag,sizeof tag,shape); prev_n=(int)c.n;
        if(!diag) nontrivial=true;
        tr.ev("op#%zu %s n=%u cls=%d norm1=%.6g band=%d draws=%ld rc=%d",i,kind.c_str(),c.n,cls,n1,band,res.draws,res.rc);
        auto fail=[&](const std::string& cl,const std::string& sig,const std::string& d){ if(out.ok){ out.fail(cl,sig,"op#"+std::to_string(i)+" "+kind+": "+d); out.prop="C07"; } };
        if(res.rc!=CALL_OK){ char b[200]; snprintf(b,sizeof b,"threw \"%s\" for a %ux%u matrix of class %d with 1-norm %.6g",res.what.c_str(),c.n,c.n,cls,n1); fail("exp:threw",kind+":n"+std::to_string(c.n),b); break; }
        if(res.draws>10000){ fail("liveness:draws",kind,"the norm estimator consumed "+std::to_string(res.draws)+" random bits in one call"); break; }
        // (2a) the same call once more, straight away, with the same estimator bits: whatever the library remembers of the call it has just answered
        // must not change the answer
        if(o["repeat"].as_bool(false)){
          CallResult again; perform(c,again); ncalls++;
          bool same2=(again.rc==res.rc);
          if(same2 && c.kind==0) same2=memcmp(&again.X.m[0][0],&res.X.m[0][0],sizeof res.X.m)==0;
          if(same2 && c.kind>=1) same2=(again.out.size()==res.out.size() && memcmp(&again.out[0],&res.out[0],res.out.size()*sizeof(double))==0);
          if(!same2){ fail("exp:history-dependent",kind+":repeat","the same call repeated immediately (same estimator bits) gives a different result"); break; }
          ctr.add("repeat_checked");
        }
        // (1) accuracy against the quadruple-precision reference
        QM R=qexp(Aexp);
        double u=1.1102230246251565e-16, fa=fro(Aexp), mu=max_herm_eig(Aexp);
        if(c.kind==0 && cls==10){
          // exp(A) = I + A exactly. The conditioning of the exponential at such a matrix is at most (1+|A|)^2 |A| (Frechet derivative: integral of
          // (I+sA) E (I+(1-s)A)), so an absolute error of 1e3*n*u*(1+|A|_1)^3 is within "a small multiple of u times the conditioning"
          ctr.add("probe_square_zero_dense_abs");
          double bound=1e3*c.n*u*std::pow(1+n1,3), worst=0; unsigned wi=0,wj=0;
          for(unsigned ii=0;ii<c.n;ii++) for(unsigned jj=0;jj<c.n;jj++){ cplx want=Aexp.m[ii][jj]+(ii==jj?cplx(1,0):cplx(0,0)); double e=std::abs(res.X.m[ii][jj]-want); if(!(e<=worst)){ worst=e; wi=ii; wj=jj; } }
          if(!(worst<=bound)){ char b[300]; snprintf(b,sizeof b,"|X-(I+A)| = %.3g at (%u,%u) exceeds 1e3*n*u*(1+|A|)^3 = %.3g for a matrix with A*A = 0 exactly (n=%u, 1-norm %.6g): exp(A) = I + A",worst,wi,wj,bound,c.n,n1);
            fail("exp:inaccurate","square-zero",b); break; }
        }else if(c.kind==0){
          double bound=2e3*c.n*u*(1+fa)*std::exp(mu+1e-12), worst=0; unsigned wi=0,wj=0;
          for(unsigned ii=0;ii<c.n;ii++) for(unsigned jj=0;jj<c.n;jj++){
            double er=std::fabs((double)((q128)res.X.m[ii][jj].real()-R.m[ii][jj].re)),ei=std::fabs((double)((q128)res.X.m[ii][jj].imag()-R.m[ii][jj].im));
            double e=std::sqrt(er*er+ei*ei); if(!(e<=worst)){ worst=e; wi=ii; wj=jj; } }
          if(!(worst<=bound)){ char b[300]; snprintf(b,sizeof b,"|X-exp(A)| = %.3g at (%u,%u) exceeds 2e3*n*u*(1+|A|)*exp(mu) = %.3g (n=%u, class %d, 1-norm %.6g, band %d)",worst,wi,wj,bound,c.n,cls,n1,band);
            // does the matrix annihilate a vector of +-1 entries other than +-(1,...,1)? Such a vector is one the block 1-norm estimator may draw as its random
            // column; the estimate of every power is then exactly 0 (known finding F-C07-3, a separate signature so that every other inaccuracy stays a violation)
            bool signnull=false;
            for(unsigned msk=1;msk+1<(1u<<c.n)&&!signnull;msk++){ double worstrow=0,amax=0;
              for(unsigned ii=0;ii<c.n;ii++){ cplx acc=0; for(unsigned jj=0;jj<c.n;jj++){ acc+=Aexp.m[ii][jj]*(((msk>>jj)&1)?1.0:-1.0); amax=std::max(amax,std::abs(Aexp.m[ii][jj])); } worstrow=std::max(worstrow,std::abs(acc)); }
              if(worstrow<=1e-13*amax) signnull=true; }
            fail("exp:inaccurate",signnull?"annihilates-a-sign-vector":"band"+std::to_string(band),b); break; }
          double rel=worst/bound; if(rel>0.01) ctr.add("probe_error_above_1pct_of_bound");
        }else{
          // exp(-isV) A exp(isV) in quadruple precision: library computes E=exp(isV) and returns E^dagger A E
          Mat E(c.n); for(unsigned ii=0;ii<c.n;ii++) for(unsigned jj=0;jj<c.n;jj++) E.m[ii][jj]=cplx((double)R.m[ii][jj].re,(double)R.m[ii][jj].im);
          Mat want=E.dagger()*Am*E; std::vector<double> wc=to_components(want);
          double tol=2e3*c.n*u*(1+fa)*(Am.maxabs()+1e-300)*c.n;
          for(unsigned k=0;k<c.n*c.n;k++) if(!(std::fabs(res.out[k]-wc[k])<=tol)){ char b[260]; snprintf(b,sizeof b,"UTransform(V,i*%.6g) component %u is %.15g, exp(-isV) A exp(isV) gives %.15g (dimension %u, tolerance %.3g)",c.s,k,res.out[k],wc[k],c.n,tol); fail("utransform:mismatch","d"+std::to_string(c.n),b); break; }
          if(!out.ok) break;
          // norm preservation and inversion by s -> -s
          double n0=0,n1v=0; Mat got=from_components(c.n,&res.out[0]); n0=fro(Am); n1v=fro(got);
          if(!(std::fabs(n0-n1v)<=tol*c.n)){ fail("utransform:norm","d"+std::to_string(c.n),"the transformation does not preserve the norm"); break; }
          Call back=c; back.kind=1; back.acomp=res.out; back.s=-c.s; CallResult rb; perform(back,rb);
          if(rb.rc!=CALL_OK){ fail("exp:threw","utransform-inverse","the inverse transformation threw \""+rb.what+"\""); break; }
          for(unsigned k=0;k<c.n*c.n;k++) if(!(std::fabs(rb.out[k]-c.acomp[k])<=2*tol)){ fail("utransform:inverse","d"+std::to_string(c.n),"s -> -s does not invert the transformation"); break; }
          if(!out.ok) break;
        }
        // (2) history independence given the bits: same call on a fresh thread (fresh scratch, fresh generator state)
        CallResult fresh;
        std::thread t2([&]{ alloc_tag(1000+(int)i); perform(c,fresh); alloc_scope(1); squids::SU_vector::clear_mem_cache(); alloc_scope(0); });
        t2.join();
        bool same=(fresh.rc==res.rc);
        if(same && c.kind==0) same=memcmp(&fresh.X.m[0][0],&res.X.m[0][0],sizeof res.X.m)==0;
        if(same && c.kind>=1) same=(fresh.out.size()==res.out.size() && memcmp(&fresh.out[0],&res.out[0],res.out.size()*sizeof(double))==0);
        if(!same){ fail("exp:history-dependent",kind,"the result after this history differs bit for bit from the result of the same call (same estimator bits) on a fresh thread"); break; }
        if(i>0) ctr.add("history_independence_checked");
      }
      alloc_scope(1); squids::SU_vector::clear_mem_cache(); alloc_scope(0);
    });
    hist.join();
    if(out.ok){
      AllocError errs[4]; int ne=alloc_errors(errs,4);
      if(ne>0){ out.fail("ledger:error","exp","allocator ledger error kind "+std::to_string(errs[0].kind)); out.prop="C15"; }
      BlockInfo bi[4]; int n=alloc_live_lib_blocks(bi,4);
      if(out.ok && n>0){ char b[160]; snprintf(b,sizeof b,"%d block(s) still allocated after the threads ended; first %zu bytes allocated in op#%d",n,bi[0].size,bi[0].tag); out.fail("ledger:leak","exp",b); out.prop="C15"; }
    }
    alloc_run_end();
    ctr.add("exp_calls",ncalls);
    out.event_hash=tr.hash; out.shape=shape; out.nontrivial=nontrivial; out.sim_steps=ncalls;
    if(text) *text=tr.text;
    return out;
  }
};

}

int main(int argc,char** argv){ ExpEngine e; return engine_main(argc,argv,e); }
